"""C15 — symbols resolve lexically and independently of declaration order.
Theorems: coq/Props/C15.v (Model/Symbols.v, ConstPass.v, SymResolve.v; Spec/Scope.v).
Streams (all from chk.rng):
  lookup   generated declaration trees (depth 4, repeated local names, labels and constants as scope openers,
           duplicate / skipped-level families) through the REAL parser + asm::decls::collect +
           util::SymbolManager::try_get_by_name at every AST node x dot-level 0..5 x path  (harness `symbols`),
           against the extracted model (correspondence) and the extracted Spec/Scope.v (spec predicate on the
           implementation's answers);
  program  the same trees as whole programs with ONE reference `#dW <dots>path` per program, from every
           position at every dot-level and path (asm::assemble via `asmtext`), against the extracted whole-program
           model and the independent Python scope resolver (values: labels = addresses, constants = literals);
  rounds   constant chains / DAGs / cycles / label- and dot-dependent constants in all (n <= 4) or random orders:
           every round of resolver::resolve_constants_simple against the model; the final round against the Python
           denotation (address-free acyclic constants have their value, the rest is unknown, at most n+1 rounds);
  chain    the same constants as whole programs, the pre-pass result observed through `#bankdef { addr = k0 }`;
  order    metamorphic: address-free leaf constants moved to other positions of the same scope => identical
           output bits and symbol values;
  cond     the same trees and references with random (nested) segments moved into the taken arm of #if/#elif/#else
           constructs with decoy arms, several per program, conditions literal or over constants that are themselves
           declared in arms (so that decls::collect runs two to four rounds): oracle = lexical scoping on the selected
           world (taken arms inlined in place), plus the metamorphic twin program = selected world."""
import itertools, os
import vlib
import c15_gen as G

RULE = ("G-prog(symbols): declaration trees to dot-level 4 over names {g,h,x,k}+{a,b,c} (repeated local names under "
        "different parents; labels and constants mixed as scope openers; fillers between; one duplicate / skipped "
        "level injected in a fifth of the trees; reserved names le/pc/incbin as globals in a tenth).  lookup: every AST "
        "node x dot-level 0..5 x (every name in use, every full dotted name and its suffixes, random paths).  "
        "program: one `#d8 ref` per program at every position/dot-level/path (sampled per tree).  rounds/chain: constants "
        "k0..k(n-1), n <= 7, chain / dag / cycle / label-dependent / dotted flavours, all permutations for n <= 4 and random "
        "orders above.  order: leaf constants re-inserted at random admissible positions.  cond: trees with 1..3 references, "
        "segments wrapped (to depth 3) into #if/#elif/#else with decoy arms, conditions true/false/1==1/q1==1/q2==2/q3==3 where q2, q3 "
        "are declared inside arms; expected = scoping of the selected world.  "
        "non-trivial = distinct (tree, node, level, path) lookups that resolve to a declaration; distinct one-reference "
        "programs whose reference resolves; distinct (constant set, order) with >= 1 forward reference; distinct conditional "
        "programs outside the F55 class with a dotted declaration inside a taken arm")

CLASS_TEXT = {
    "symbol_named_like_builtin": "a global symbol named like a built-in (pc, le, sizeof, ..., incbin) can be declared "
                                 "but a bare reference never resolves to it",
}
# a class filed under another property whose inputs this check also generates (the defect lies where C15 and C16 meet)
SHARED_CLASSES = ("nested_symbol_across_if",)
CLASS_TEXT["nested_symbol_across_if"] = ("a dotted declaration that follows an #if block is attached to the scopes collected "
                                         "before the block's arm was spliced in (F55, filed under C16)")
BUDGET = 40


class Findings:
    def __init__(self, chk):
        self.chk = chk
        self.known = {f["class"]: f for f in vlib.known_findings()
                      if f.get("status") == "known" and (f.get("property") == "C15" or f.get("class") in SHARED_CLASSES)}
        self.by_class = {}

    def add(self, cls, what, replay, found=True):
        e = self.by_class.get(cls)
        if e is None:
            e = self.by_class[cls] = {"what": what, "replay": replay, "n": 0, "found": found}
        elif found and not e["found"]:
            e.update({"what": what, "replay": replay, "found": found})
        e["n"] += 1

    def flush(self):
        for cls, e in sorted(self.by_class.items()):
            vlib.log("C15 class %-30s %7d inputs  %s" % (cls, e["n"], "known" if cls in self.known else "VIOLATION"))
            rep = dict(e["replay"])
            rep["class"] = cls
            rep["occurrences"] = e["n"]
            if cls in self.known:
                self.chk.known(self.known[cls]["id"], "class=%s: %s (%d inputs, e.g. %s)" % (
                    cls, CLASS_TEXT.get(cls, ""), e["n"], rep.get("program", "").replace("\n", " / ")[:120]))
            else:
                self.chk.violation(e["what"], rep, found=e["found"])


def touches_reserved(nodes, names):
    pcs, exprb, asmb = names
    res = set(pcs) | set(exprb) | set(asmb)

    def in_expr(e):
        if e[0] == "l":
            return False
        if e[0] == "r":
            return e[1] == 0 and e[2][0] in res
        return in_expr(e[1]) or in_expr(e[2])
    return any((n[0] == "C" and in_expr(n[3])) or (n[0] == "D" and in_expr(n[2])) for n in nodes)


def parse_symbols(text):
    out = {}
    for line in text.split("\n"):
        if " = " in line:
            n, v = line.split(" = ")
            v = v.strip()
            out[n] = -int(v[3:], 16) if v.startswith("0x-") else int(v, 16)
    return out


def impl_program(ans):
    """canonical view of an asmtext answer: ('OK', bits, {name: value}) | ('ERR',) | ('CRASH', text)"""
    f = ans.split("\t")
    if f[0] == "OK":
        return ("OK", f[1], parse_symbols(vlib.unhx(f[3]) if len(f) > 3 else ""))
    if f[0] == "ERR":
        return ("ERR",)
    return ("CRASH", ans)


def model_program(ans):
    f = ans.split("\t")
    if f[0] == "OK":
        bits = ""
        for item in (f[1].split(",") if f[1] else []):
            w, v = item.split(":")
            bits += format(int(v, 16), "0%db" % int(w))
        syms = {}
        for kv in (f[2].split(";") if len(f) > 2 and f[2] else []):
            n, v = kv.split("=")
            syms[vlib.unhx(n)] = int(v, 16)
        return ("OK", bits, syms)
    if f[0] == "ERR":
        return ("ERR",)
    return ("CRASH", ans)


def spec_program(den):
    if den[0] == "OK":
        return ("OK", "".join(format(v, "0%db" % w) for w, v in den[1]), den[2])
    if den[0] == "ERR":
        return ("ERR",)
    return ("BUILTIN",)


# ============================================================================= streams
def stream_lookup(chk, fnd, bins, model, names, ntrees):
    rng = chk.rng.fork("lookup")
    cases = []
    for t in range(ntrees):
        err = rng.weighted([(None, 8), ("dup", 1), ("skip", 1)])
        reserved = ("le", "pc", "incbin") if rng.chance(0.1) else ()
        nodes = G.gen_tree(rng, rng.range(2, 14), err=err, reserved=reserved)
        paths = G.tree_paths(nodes, rng)
        cases.append((nodes, paths))
    maxlevel = 5
    impl_lines = ["Q\t%s\t%d\t%s" % (vlib.hx(G.render(n)), maxlevel, "|".join(G.wire_path(p) for p in ps)) for n, ps in cases]
    model_lines = ["Q\t%s\t%d\t%s" % (G.wire_qnodes(n), maxlevel, "|".join(G.wire_path(p) for p in ps)) for n, ps in cases]
    res = {p: vlib.run_lines([bins[p] + "/symbols"], impl_lines) for p in bins}
    mres = vlib.run_lines([model], model_lines, env=dict(os.environ, C15_NAMES=names_env(names)))
    dist = {"ok": 0, "dup": 0, "skip": 0, "lookups": 0, "resolved": 0}
    ndis = 0
    for idx, (nodes, paths) in enumerate(cases):
        impl = res["debug"][idx]
        prog = G.render(nodes)
        if "release" in res and res["release"][idx] != impl:
            fnd.add("profile-divergence", "debug and release builds disagree on symbol lookups",
                    {"kind": "profile", "stream": "lookup", "program": prog, "debug": impl, "release": res["release"][idx]})
            continue
        mf = mres[idx].split("\t")
        if len(mf) != 2:
            fnd.add("driver", "model driver failed: %s" % mres[idx], {"kind": "driver", "stream": "lookup", "program": prog,
                                                                      "model": mres[idx]}, found=False)
            continue
        mod, spec = mf
        # canonical forms: "OK n list" / "ERR class declared"
        f = impl.split("\t")
        if f[0] == "OK":
            icanon = "OK %s %s" % (f[1], f[2] if len(f) > 2 else "")
            dist["ok"] += 1
        elif f[0] == "ERR":
            icanon = "ERR %s %s" % (f[1], f[2])
            dist[f[1]] = dist.get(f[1], 0) + 1
        else:
            fnd.add("crash", "symbol table code crashed or did not parse: %s" % impl,
                    {"kind": "crash", "stream": "lookup", "program": prog, "impl": impl})
            continue
        rep = {"kind": "lookup", "stream": "lookup", "program": prog, "paths": [".".join(p) for p in paths],
               "maxlevel": maxlevel, "impl": icanon[:2000], "spec": spec[:2000], "model": mod[:2000]}
        if icanon != spec:
            rep["first_difference"] = first_diff(icanon, spec, nodes, paths, maxlevel)
            fnd.add("lookup-spec", "lookup differs from lexical scoping (Spec/Scope.v): %s" % rep["first_difference"], rep)
        else:
            imod = icanon if f[0] == "OK" else "ERR"
            if imod != mod:
                ndis += 1
                rep["theorems"] = ["C15_lookup", "C15_declare_errors"]
                fnd.add("lookup-correspondence", "model/implementation correspondence broken (symbol table)", rep, found=False)
        if f[0] == "OK":
            answers = f[2].split(",") if len(f) > 2 and f[2] else []
            dist["lookups"] += len(answers)
            per = (maxlevel + 1) * len(paths)
            key = hash(prog)
            for j, a in enumerate(answers):
                if a != "-":
                    dist["resolved"] += 1
                    chk.nontriv(("lk", key, j))
            if idx % 400 == 0:
                chk.sample({"stream": "lookup", "program": prog, "nodes": len(nodes), "paths": len(paths),
                            "answers_per_node": per, "impl_head": ",".join(answers[:per])})
    chk.count("lookup", len(cases), **dist)
    chk.cov["traces_validated_against_impl"] += len(cases)
    chk.cov["disagreements_checked"] += ndis


def first_diff(a, b, nodes, paths, maxlevel):
    fa, fb = a.split(" "), b.split(" ")
    if fa[0] != fb[0] or fa[0] != "OK":
        return "impl %s vs spec %s" % (a[:60], b[:60])
    la, lb = fa[2].split(","), fb[2].split(",")
    per = (maxlevel + 1) * len(paths)
    for j, (x, y) in enumerate(zip(la, lb)):
        if x != y:
            node, r = divmod(j, per)
            lvl, p = divmod(r, len(paths))
            return "node %d, %d dots, path %s: impl %s, spec %s" % (node, lvl, ".".join(paths[p]), x, y)
    return "length %d vs %d" % (len(la), len(lb))


def names_env(names):
    return "|".join(",".join(vlib.hx(x) for x in part) for part in names)


def run_programs(chk, fnd, bins, model, names, stream, progs, theorems, opt="1"):
    """progs: list of dict(nodes, bank, tag).  Runs asmtext (debug+release), the model, the Python denotation.
    Returns list of canonical impl views."""
    impl_lines = ["A\t%d\t%s\t1\t%s" % (BUDGET, opt, vlib.hx(p.get("text") or G.render(p["nodes"], p.get("bank")))) for p in progs]
    model_lines = ["P\t%s\t%d\t%s\t%s" % (opt, BUDGET, G.wire_expr(p["bank"]) if p.get("bank") else "-", G.wire_nodes(p["nodes"]))
                   for p in progs]
    res = {pf: vlib.run_lines([bins[pf] + "/asmtext"], impl_lines) for pf in bins}
    mres = vlib.run_lines([model], model_lines, env=dict(os.environ, C15_NAMES=names_env(names)))
    dist = {"ok": 0, "err": 0, "reserved_name": 0}
    ndis = 0
    views = []
    for idx, p in enumerate(progs):
        prog = p.get("text") or G.render(p["nodes"], p.get("bank"))
        impl = res["debug"][idx]
        if "release" in res and res["release"][idx] != impl:
            fnd.add("profile-divergence", "debug and release builds disagree",
                    {"kind": "profile", "stream": stream, "program": prog, "debug": impl, "release": res["release"][idx]})
            views.append(None)
            continue
        iv = impl_program(impl)
        views.append(iv)
        if iv[0] == "CRASH":
            fnd.add("crash", "implementation crashed or was inconsistent: %s" % impl[:100],
                    {"kind": "crash", "stream": stream, "program": prog, "impl": impl})
            continue
        mv = model_program(mres[idx])
        sv = spec_program(G.denote_program(p["nodes"], p.get("bank"), names))
        dist["ok" if iv[0] == "OK" else "err"] += 1
        rep = {"kind": "program", "stream": stream, "program": prog, "tag": p.get("tag"), "budget": BUDGET,
               "impl": show_view(iv), "model": show_view(mv), "spec": show_view(sv), "static": opt}
        if p.get("cond"):
            # conditional program: model and specification are evaluated on the selected world (taken arms inlined)
            rep["selected_world"] = G.render(p["nodes"], p.get("bank"))
            if iv != sv and p.get("f55"):
                fnd.add("nested_symbol_across_if", "a dotted declaration after an #if block is attached to the wrong parent", rep)
                continue
        reserved = touches_reserved(p["nodes"] + ([("D", 8, p["bank"])] if p.get("bank") else []), names)
        if sv[0] == "BUILTIN" or (reserved and iv != sv):
            dist["reserved_name"] += 1
            # the property text knows no reserved names: resolve as if there were none and compare
            sv2 = spec_program(G.denote_program(p["nodes"], p.get("bank"), ([], [], [])))
            rep["spec"] = show_view(sv2)
            if iv != sv2:
                if iv == mv:
                    fnd.add("symbol_named_like_builtin", "a declared symbol named like a built-in is not what a reference resolves to", rep)
                else:
                    ndis += 1
                    rep["theorems"] = theorems
                    fnd.add("program-correspondence", "model/implementation correspondence broken (reserved name)", rep, found=False)
            continue
        if iv != sv:
            fnd.add("cond-spec" if p.get("cond") else "instr-spec" if p.get("nomodel") else "program-spec",
                    "%s: implementation %s, lexical scoping%s says %s" % (
                        p.get("tag"), show_view(iv)[:80], " on the selected world" if p.get("cond") else "", show_view(sv)[:80]), rep)
        elif iv != mv and not p.get("nomodel"):
            ndis += 1
            rep["theorems"] = theorems
            fnd.add("program-correspondence", "model/implementation correspondence broken (whole program)", rep, found=False)
    chk.count(stream, len(progs), **dist)
    chk.cov["traces_validated_against_impl"] += len(progs)
    chk.cov["disagreements_checked"] += ndis
    return views


def show_view(v):
    if v[0] == "OK":
        return "OK bits=%s symbols=%s" % (hex(int(v[1], 2)) if v[1] else "-", ",".join("%s=%#x" % kv for kv in sorted(v[2].items())))
    return " ".join(str(x) for x in v)


def stream_program(chk, fnd, bins, model, names, ntrees, per_tree):
    rng = chk.rng.fork("program")
    progs = []
    for t in range(ntrees):
        err = rng.weighted([(None, 12), ("dup", 1), ("skip", 1)])
        reserved = ("le", "pc", "incbin") if rng.chance(0.1) else ()
        nodes = G.gen_tree(rng, rng.range(2, 11), err=err, reserved=reserved)
        paths = G.tree_paths(nodes, rng, extra=2)
        sc = G.Scopes(nodes)
        # every position x dot-level 0..4 x path; keep all that resolve plus a sample of those that do not
        allrefs = []
        for pos in range(len(nodes) + 1):
            encl = sc.encl[pos - 1] if pos > 0 else []
            for lvl in range(0, 5):
                for p in paths:
                    r = None if sc.error else sc.resolve(encl, lvl, p)
                    allrefs.append((pos, lvl, p, r))
        good = [x for x in allrefs if x[3] is not None]
        bad = [x for x in allrefs if x[3] is None]
        pick = rng.shuffle(good)[:per_tree] + rng.shuffle(bad)[:max(2, per_tree // 4)]
        if per_tree >= 10 ** 6:
            pick = allrefs
        for (pos, lvl, p, r) in pick:
            nn = nodes[:pos] + [("D", 8, ("r", lvl, p))] + nodes[pos:]
            progs.append({"nodes": nn, "tag": "reference %s%s at node %d" % ("." * lvl, ".".join(p), pos)})
            if r is not None:
                chk.nontriv(("pg", G.render(nn)))
    views = run_programs(chk, fnd, bins, model, names, "program", progs, ["C15_lookup", "C15_unknown", "C15_forward"])
    for i in (0, len(progs) // 2):
        if i < len(progs) and views[i]:
            chk.sample({"stream": "program", "program": G.render(progs[i]["nodes"]), "impl": show_view(views[i])})


def chain_cases(rng, count):
    """(definitions in some order with extras mixed in, flavour)"""
    out = []
    flavours = ["chain", "dag", "cycle", "label", "dotted"]
    # exhaustive orders for n <= 4
    for n in (1, 2, 3, 4):
        for fl in ("chain", "dag", "cycle"):
            defs = G.gen_chain(rng, n, fl)
            for perm in itertools.permutations(range(n)):
                out.append(([defs[i] for i in perm], fl))
    while len(out) < count:
        n = rng.range(3, 7)
        fl = rng.choice(flavours)
        base = "chain" if fl in ("label", "dotted") else fl
        defs = G.gen_chain(rng, n, base)
        nodes = rng.shuffle(defs)
        if fl == "label":
            # one constant takes a label's address; the label and some data are placed at random
            j = rng.below(n)
            nodes[j] = ("C", 0, nodes[j][2], ("+", ("r", 0, ["lab"]), ("l", 1)))
            at = rng.below(len(nodes) + 1)
            nodes = nodes[:at] + [("O",), ("L", 0, "lab")] + nodes[at:]
        if fl == "dotted":
            # nested constants: `.z` under one of the constants, referenced with dots and by full name
            j = rng.below(len(nodes))
            parent = nodes[j][2]
            nodes = nodes[:j + 1] + [("C", 1, "z", ("l", rng.range(1, 5)))] + nodes[j + 1:]
            tgt = rng.below(len(nodes))
            if nodes[tgt][0] == "C" and nodes[tgt][1] == 0:
                how = rng.choice(["dots", "full"])
                ref = ("r", 1, ["z"]) if how == "dots" else ("r", 0, [parent, "z"])
                nodes[tgt] = ("C", 0, nodes[tgt][2], ("+", nodes[tgt][3], ref))
        out.append((nodes, fl))
    return out


def stream_rounds(chk, fnd, bins, model, names, cases):
    impl_lines, model_lines = [], []
    for nodes, fl in cases:
        for opt in ("1", "0"):
            impl_lines.append("R\t%s\t%s" % (opt, vlib.hx(G.render(nodes))))
            model_lines.append("R\t%s\t%s" % (opt, G.wire_nodes(nodes)))
    res = {p: vlib.run_lines([bins[p] + "/symbols"], impl_lines) for p in bins}
    mres = vlib.run_lines([model], model_lines, env=dict(os.environ, C15_NAMES=names_env(names)))
    dist = {"rounds_1": 0, "rounds_2": 0, "rounds_3plus": 0, "with_unknown": 0}
    ndis = 0
    for idx in range(len(impl_lines)):
        nodes, fl = cases[idx // 2]
        prog = G.render(nodes)
        impl = res["debug"][idx]
        if "release" in res and res["release"][idx] != impl:
            fnd.add("profile-divergence", "debug and release builds disagree", {"kind": "profile", "stream": "rounds", "program": prog,
                                                                               "debug": impl, "release": res["release"][idx]})
            continue
        rep = {"kind": "rounds", "stream": "rounds", "program": prog, "static": idx % 2 == 0, "impl": impl, "model": mres[idx]}
        f = impl.split("\t")
        if f[0] != "OK":
            fnd.add("rounds-crash", "constant pre-pass failed on an error-free program: %s" % impl, rep)
            continue
        rounds = f[1].split("|")
        nconst = sum(1 for n in nodes if n[0] == "C")
        final = rounds[-1].split(":")[1].split(",")
        expect = G.prepass_denotation(nodes, names)
        want = ["?" if v is None else ("%x" % v if v >= 0 else "-%x" % -v) for v in expect]
        k = len(rounds)
        dist["rounds_1" if k == 1 else "rounds_2" if k == 2 else "rounds_3plus"] += 1
        if "?" in want:
            dist["with_unknown"] += 1
        stable = len(rounds) >= 1 and (rounds[-1].split(":")[0] == (rounds[-2].split(":")[0] if len(rounds) > 1 else "0"))
        if final != want or not stable or k > nconst + 1:
            rep["expected_final"] = ",".join(want)
            rep["rounds_allowed"] = nconst + 1
            fnd.add("rounds-spec", "pre-pass fixpoint differs from the denotation of the constants (or needs more than n+1 rounds)", rep)
        elif impl != mres[idx]:
            ndis += 1
            rep["theorems"] = ["C15_constants_fixpoint", "C15_order"]
            fnd.add("rounds-correspondence", "model/implementation correspondence broken (resolve_constants_simple rounds)", rep, found=False)
        if any_forward(nodes):
            chk.nontriv(("rd", prog))
        if idx % 900 == 0:
            chk.sample({"stream": "rounds", "program": prog, "impl": impl})
    chk.count("rounds", len(impl_lines), **dist)
    chk.cov["traces_validated_against_impl"] += len(impl_lines)
    chk.cov["disagreements_checked"] += ndis


LAZY_CASES = [
    # (program, final pre-pass values by item: hex | ? unknown | o other (boolean), why)
    ("c = 1 == 1 ? 5 : c\n", ["5"], "self-reference in the branch that is not taken"),
    ("c = 1 == 2 ? 5 : c\n", ["?"], "self-reference in the branch that is taken"),
    ("a = 1 == 1 || a\n", ["o"], "lazy or decided by its left operand"),
    ("b = 1 == 2 && b\n", ["o"], "lazy and decided by its left operand"),
    ("a = 1 == 2 || a\n", ["?"], "lazy or that needs its right operand"),
    ("k = 1 == 1 ? j : k\nj = 7\n", ["7", "7"], "taken branch reads a later constant, untaken one reads itself"),
    ("a = b\nb = a\n", ["?", "?"], "two-cycle"),
    ("a = b + 1\nb = c + 1\nc = a + 1\nd = 4\ne = d + a\n", ["?", "?", "?", "4", "?"], "three-cycle and a constant depending on it"),
]


def stream_lazy(chk, fnd, bins):
    """cycles and self-reference under the lazy operators (outside the model's strict language): the implementation's
    pre-pass must stop within n+1 rounds in a table where one more round changes nothing, with the least-fixed-point
    values written out above"""
    lines = ["R\t%s\t%s" % (opt, vlib.hx(t)) for (t, _, _) in LAZY_CASES for opt in ("1", "0")]
    res = vlib.run_lines([bins["debug"] + "/symbols"], lines)
    for i, ans in enumerate(res):
        text, want, why = LAZY_CASES[i // 2]
        f = ans.split("\t")
        rounds = f[1].split("|") if f[0] == "OK" and len(f) > 1 else []
        final = rounds[-1].split(":")[1].split(",") if rounds else None
        n = len(want)
        stable = len(rounds) >= 2 and rounds[-1] == rounds[-2] or (len(rounds) == 1 and rounds[0].split(":")[0] == "0")
        if final != want or len(rounds) > n + 1 or not stable:
            fnd.add("rounds-lazy", "pre-pass on %s: %s, expected final %s within %d rounds" % (why, ans, ",".join(want), n + 1),
                    {"kind": "rounds", "stream": "lazy", "program": text, "static": i % 2 == 0, "impl": ans,
                     "expected_final": ",".join(want), "rounds_allowed": n + 1})
        chk.nontriv(("lz", text))
    chk.count("lazy", len(lines))
    chk.cov["traces_validated_against_impl"] += len(lines)


def any_forward(nodes):
    seen = set()
    for n in nodes:
        if n[0] == "C":
            if refs_outside(n[3], seen):
                return True
        if n[0] in ("L", "C"):
            seen.add(n[2])
    return False


def refs_outside(e, seen):
    if e[0] == "l":
        return False
    if e[0] == "r":
        return e[2][0] not in seen
    return refs_outside(e[1], seen) or refs_outside(e[2], seen)


def stream_chain(chk, fnd, bins, model, names, cases):
    rng = chk.rng.fork("chainprog")
    progs = []
    for nodes, fl in cases:
        consts = [n for n in nodes if n[0] == "C" and n[1] == 0]
        probe = rng.choice(consts)[2] if consts else "k0"
        body = list(nodes) + [("O",), ("L", 0, "endlab"), ("D", 32, ("r", 0, [probe]))]
        bank = ("r", 0, [probe]) if rng.chance(0.7) else None
        progs.append({"nodes": body, "bank": bank, "tag": "%s constants, probe %s%s" % (fl, probe, " as bank address" if bank else "")})
        if any_forward(nodes):
            chk.nontriv(("ch", G.render(body, bank)))
    views = run_programs(chk, fnd, bins, model, names, "chain", progs, ["C15_constants_fixpoint", "C15_forward", "C15_unknown"])
    if progs and views[0]:
        chk.sample({"stream": "chain", "program": G.render(progs[0]["nodes"], progs[0]["bank"]), "impl": show_view(views[0])})


def admissible_positions(nodes, sc, parent, lvl):
    """positions (insertion indices) where a leaf declaration with `lvl` dots gets `parent` as its parent and
    captures nothing: the scopes there agree with parent on the first lvl entries and the next declaration,
    if any, has at most lvl dots"""
    out = []
    for pos in range(len(nodes) + 1):
        encl = sc.encl[pos - 1] if pos > 0 else []
        if lvl > len(encl) or (lvl > 0 and encl[lvl - 1] != parent):
            continue
        nxt = next((n for n in nodes[pos:] if n[0] in ("L", "C")), None)
        if nxt is not None and nxt[1] > lvl:
            continue
        out.append(pos)
    return out


def stream_order(chk, fnd, bins, model, names, count):
    rng = chk.rng.fork("order")
    pairs = []
    tries = 0
    while len(pairs) < count and tries < count * 20:
        tries += 1
        nodes = G.gen_tree(rng, rng.range(3, 9))
        # add address-free constants defined through each other (global chain) as leaves at the top level
        chain = G.gen_chain(rng, rng.range(2, 4), rng.choice(["chain", "dag"]))
        base = list(nodes)
        sc0 = G.Scopes(base)
        if sc0.error:
            continue
        prog_a = list(base)
        for c in chain:
            sc = G.Scopes(prog_a)
            pos = rng.choice(admissible_positions(prog_a, sc, None, 0))
            prog_a = prog_a[:pos] + [c] + prog_a[pos:]
        prog_b = list(base)
        for c in rng.shuffle(chain):
            sc = G.Scopes(prog_b)
            pos = rng.choice(admissible_positions(prog_b, sc, None, 0))
            prog_b = prog_b[:pos] + [c] + prog_b[pos:]
        # also move one nested leaf constant of the tree, when there is one
        tail = [("O",), ("D", 32, ("r", 0, [chain[0][2]]))]
        a, b = prog_a + tail, prog_b + tail
        sa, sb = G.Scopes(a), G.Scopes(b)
        if sa.error or sb.error:
            continue
        na = sorted((sa.full_name(i), d["kind"], str(d["expr"])) for i, d in enumerate(sa.decl))
        nb = sorted((sb.full_name(i), d["kind"], str(d["expr"])) for i, d in enumerate(sb.decl))
        if na != nb or G.render(a) == G.render(b):
            continue
        pairs.append((a, b))
    progs = []
    for a, b in pairs:
        progs.append({"nodes": a, "tag": "order A"})
        progs.append({"nodes": b, "tag": "order B"})
    views = run_programs(chk, fnd, bins, model, names, "order", progs, ["C15_order"])
    for i, (a, b) in enumerate(pairs):
        va, vb = views[2 * i], views[2 * i + 1]
        if va is None or vb is None:
            continue
        # labels keep their addresses (constants occupy no space), constants keep their values
        if va != vb:
            fnd.add("order-metamorphic", "moving address-free constant declarations changed the result",
                    {"kind": "order", "stream": "order", "program": G.render(a), "program_b": G.render(b),
                     "impl": show_view(va), "impl_b": show_view(vb)})
        chk.nontriv(("or", G.render(a), G.render(b)))
    if pairs and views[0]:
        chk.sample({"stream": "order", "program_a": G.render(pairs[0][0]), "program_b": G.render(pairs[0][1]), "impl": show_view(views[0])})


def directed_cond():
    """conditional programs written out: nested declarations in arms under parents outside, arms that open scopes"""
    L, C, O = (lambda k, n: ("L", k, n)), (lambda k, n, e: ("C", k, n, e)), ("O",)
    ref = lambda k, *p: ("D", 8, ("r", k, list(p)))
    If = lambda c, v, body, els=None: ("I", [(c, v, body)], els)
    q1 = C(0, "q1", ("l", 1))
    out = []
    out.append(([L(0, "outer"), O, If("true", True, [L(1, "inner"), O]), ref(0, "outer", "inner")], "nested label in an arm, parent outside"))
    out.append(([q1, L(0, "outer"), O, If("q1 == 2", False, [L(1, "x")], [C(1, "inner", ("l", 9))]), ref(1, "inner")],
                "nested constant in an #else arm, parent outside"))
    out.append(([If("true", True, [L(0, "first"), O, L(1, "v"), O]), L(0, "second"), O, L(1, "v"), O,
                 If("true", True, [L(1, "w"), O]), ref(1, "v"), ref(0, "second", "w")],
                "two #if blocks: the second declares .w under the unconditional label"))
    out.append(([q1, If("q1 == 1", True, [C(0, "q2", ("l", 2))]), L(0, "g"), O, L(1, "a"), O,
                 If("q2 == 2", True, [L(2, "b"), O, If("q2 == 2", True, [L(3, "c"), O])]), ref(0, "g", "a", "b", "c"), ref(3, "c")],
                "three collection rounds, nesting continues inside the arms"))
    out.append(([L(0, "g"), O, If("false", False, [L(0, "h")], None), L(1, "a"), O, ref(0, "g", "a")], "unselected arm opens no scope"))
    out.append(([L(0, "g"), O, If("true", True, [L(1, "a"), O, L(1, "a")])], "duplicate inside an arm"))
    out.append(([L(0, "g"), If("true", True, [L(2, "a")])], "skipped level inside an arm"))
    out.append(([ref(1, "a"), L(0, "g"), ref(1, "a"), If("true", True, [O, L(1, "a"), ref(1, "a")]), ref(1, "a"), ref(0, "g", "a")],
                "references before, inside and after the arm"))
    return out


def stream_cond(chk, fnd, bins, model, names, count):
    """declarations and references inside #if / #elif / #else arms: the program must behave as its selected world"""
    rng = chk.rng.fork("cond")
    progs = []
    dist = {"in_f55_class": 0, "ifs": 0, "multi_stage": 0}
    cases = [(items, tag) for items, tag in directed_cond()]
    while len(cases) < count:
        items = G.gen_cond_program(rng)
        if G.f55_exact(G.select_world(items)) and rng.chance(0.75):
            continue
        cases.append((items, "generated"))
    for items, tag in cases:
        world = G.select_world(items)
        f55 = G.f55_exact(world)
        text = G.render_cond(items)
        dist["in_f55_class"] += f55
        dist["ifs"] += G.count_ifs(items)
        dist["multi_stage"] += ("q2 ==" in text)
        progs.append({"nodes": [n for n, _ in world], "text": text, "f55": f55, "cond": True,
                      "tag": "%s conditional program (%d #if)" % (tag, G.count_ifs(items))})
        if not f55 and any(n[0] in ("L", "C") and n[1] > 0 and path for n, path in world):
            chk.nontriv(("cd", text))
    views = run_programs(chk, fnd, bins, model, names, "cond", progs, ["C15_lookup", "C15_declare_errors", "C15_forward"])
    # metamorphic: the selected world alone assembles to the same bits and symbol values
    wlines = ["A\t%d\t1\t1\t%s" % (BUDGET, vlib.hx(G.render(p["nodes"]))) for p in progs]
    wres = vlib.run_lines([bins["debug"] + "/asmtext"], wlines)
    for idx, p in enumerate(progs):
        if views[idx] is None or views[idx][0] == "CRASH":
            continue
        wv = impl_program(wres[idx])
        if wv != views[idx] and not p["f55"]:
            fnd.add("cond-metamorphic", "a program and its selected world (taken arms inlined) assemble differently",
                    {"kind": "program", "stream": "cond", "program": p["text"], "selected_world": G.render(p["nodes"]), "budget": BUDGET,
                     "impl": show_view(views[idx]), "spec": "as the selected world: " + show_view(wv)})
    chk.count("cond", 0, **dist)
    for i in (0, len(progs) - 1):
        if views[i]:
            chk.sample({"stream": "cond", "program": progs[i]["text"], "selected_world": G.render(progs[i]["nodes"]), "impl": show_view(views[i])})


def stream_instr(chk, fnd, bins, model, names, count):
    """instructions (single-match rule `ld {x: u8}`) and data directives that name local symbols declared under labels AND
    under constants - some taking the address of a label by full name, some defined from DOTTED references to siblings
    (`.m = .k + 1`) while a literal global carries the same name - behind a `jmp` that shrinks after the first pass:
    what is encoded is the FINAL value of the declaration lexical scoping selects, with the static-value optimisation
    on and off (the matcher's and the definition pass's static analyses look names up on their own)."""
    rng = chk.rng.fork("instr")
    L, C, O = (lambda k, n: ("L", k, n)), (lambda k, n, e: ("C", k, n, e)), ("O",)
    ref = lambda k, *p: ("r", k, list(p))
    progs = []
    hand = [
        [L(0, "start"), ("J", ref(0, "end")), L(0, "mid"), C(1, "x", ("l", 85)), C(0, "c", ("l", 0)), C(1, "x", ref(0, "mid")),
         ("X", ref(1, "x")), ("X", ref(0, "mid", "x")), ("X", ref(0, "c", "x")), L(0, "end")],
        [L(0, "start"), ("J", ref(0, "end")), C(0, "c", ("l", 0)), C(1, "x", ("l", 85)), L(0, "mid"), C(1, "x", ref(0, "mid")),
         ("X", ref(1, "x")), ("X", ref(0, "c", "x")), L(0, "end")],
        [L(0, "start"), ("J", ref(0, "end")), L(0, "w"), L(1, "mid"), C(2, "x", ("l", 85)), C(1, "c", ref(0, "end")), C(2, "x", ref(0, "w", "mid")),
         ("X", ref(2, "x")), ("X", ref(1, "c")), L(0, "end")],
    ]
    # nested constants defined from dotted references, a literal global of the local's name, the local an address
    hand += [
        [C(0, "k", ("l", 7)), L(0, "start"), ("J", ref(0, "end")), C(1, "m", ("+", ref(1, "k"), ("l", 1))), ("X", ref(1, "m")),
         L(1, "k"), O, L(0, "end")],
        [C(0, "k", ("l", 7)), L(0, "start"), ("J", ref(0, "end")), L(1, "k"), C(1, "m", ("+", ref(1, "k"), ("l", 1))), ("D", 8, ref(1, "m")),
         ("X", ref(0, "start", "m")), L(0, "end")],
        [C(0, "k", ("l", 7)), L(0, "start"), ("J", ref(0, "end")), L(1, "q"), C(2, "k", ref(0, "end")), C(2, "x", ref(2, "k")),
         ("D", 8, ref(2, "x")), L(0, "end")],
    ]
    for nodes in hand:
        progs.append({"nodes": nodes, "text": G.render(nodes), "nomodel": True, "tag": "instruction naming a local (directed)"})
    while len(progs) < count:
        nodes = G.gen_instr_program(rng)
        if nodes is None:
            continue
        progs.append({"nodes": nodes, "text": G.render(nodes), "nomodel": True, "tag": "instruction naming a local"})
    for p in progs:
        if any(n[0] == "C" and n[3][0] != "l" for n in p["nodes"]):
            chk.nontriv(("in", p["text"]))
    von = run_programs(chk, fnd, bins, model, names, "instr", progs, ["C15_lookup", "C15_forward"], opt="1")
    voff = run_programs(chk, fnd, bins, model, names, "instr", progs, ["C15_lookup", "C15_forward"], opt="0")
    for i, p in enumerate(progs):
        if von[i] is not None and voff[i] is not None and von[i] != voff[i]:
            fnd.add("instr-static-switch", "an instruction naming a local symbol encodes different values with the static optimisation on and off",
                    {"kind": "program", "stream": "instr", "program": p["text"], "budget": BUDGET, "static": "1",
                     "impl": show_view(von[i]), "spec": "with the optimisation off: " + show_view(voff[i])})
    if von[0]:
        chk.sample({"stream": "instr", "program": progs[0]["text"], "impl": show_view(von[0])})
    if von[-1]:
        chk.sample({"stream": "instr", "program": progs[-1]["text"], "impl": show_view(von[-1])})


def directed(chk, fnd, bins, model, names):
    """hand-picked families: the witnesses of the reading notes and of F54, forward/backward twins"""
    L, C, O = (lambda k, n: ("L", k, n)), (lambda k, n, e: ("C", k, n, e)), ("O",)
    ref = lambda k, *p: ("r", k, list(p))
    progs = []

    def add(nodes, tag, bank=None):
        progs.append({"nodes": nodes, "tag": tag, "bank": bank})
    # a constant's own expression sees the scopes AFTER its own declaration
    add([C(0, "a", ref(1, "b")), C(1, "b", ("l", 3)), ("D", 8, ref(0, "a"))], "constant refers to its own child")
    add([L(0, "g"), C(1, "a", ("l", 4)), C(0, "k", ref(1, "a")), ("D", 8, ref(0, "k"))], "global constant with a dotted reference")
    # forward = backward
    for fwd in (False, True):
        decl = [O, L(0, "g"), O, L(1, "a"), O, C(2, "b", ("l", 77))]
        use = [("D", 8, ref(0, "g", "a")), ("D", 8, ref(0, "g", "a", "b"))]
        add(use + decl if fwd else decl + use, "forward" if fwd else "backward")
    # repeated local names under different parents
    add([L(0, "g"), O, L(1, "a"), O, L(0, "h"), O, L(1, "a"), ("D", 8, ref(1, "a")), ("D", 8, ref(0, "g", "a")), ("D", 8, ref(0, "h", "a"))],
        "same local name under two parents")
    # error families
    add([L(0, "g"), L(2, "a")], "skipped level")
    add([L(0, "g"), L(1, "a"), C(1, "a", ("l", 1))], "duplicate in one scope")
    add([L(0, "g"), L(1, "a"), L(0, "h"), L(1, "a")], "same name in two scopes is fine")
    add([L(0, "g"), ("D", 8, ref(0, "nosuch"))], "undeclared")
    add([L(0, "g"), ("D", 8, ref(3, "a"))], "more dots than scopes")
    add([C(0, "a", ref(0, "b")), C(0, "b", ref(0, "a")), ("D", 8, ref(0, "a"))], "cyclic constants")
    # F54 witnesses
    add([O, L(0, "pc"), O, ("D", 8, ref(0, "pc"))], "label named pc")
    add([L(0, "le"), O, ("D", 8, ref(0, "le"))], "label named le")
    add([L(0, "incbin"), L(1, "x"), O, ("D", 8, ref(0, "incbin", "x"))], "label named incbin, dotted path")
    add([L(0, "le"), C(1, "q", ("l", 7)), ("D", 8, ref(0, "le", "q"))], "dotted path through a label named le")
    add([C(0, "sizeof", ("l", 3)), C(0, "k", ("+", ref(0, "sizeof"), ("l", 1))), ("D", 8, ref(0, "k"))], "constant named sizeof")
    run_programs(chk, fnd, bins, model, names, "directed", progs, ["C15_lookup", "C15_unknown", "C15_forward"])
    for p in progs[:3]:
        chk.nontriv(("dr", p["tag"]))


def run(chk):
    chk.rule = RULE
    chk.prove()
    vlib.extraction("ExSymbols")
    model = vlib.ocaml_build("symbols_driver", ["symbols_model"])
    quick = chk.tier == "quick"
    bins = vlib.harness_build(("debug", "release"))
    names = G.builtin_names(vlib.REPO)
    chk.cov["reserved_names_read_from_source"] = {"pc": names[0], "expr": names[1], "asm": names[2]}
    chk.cov["reading"] = ("any symbol (label or constant) opens a scope for deeper levels, as the code does for declarations and "
                          "references alike (DESIGN appendix B); the expression of a constant is resolved in the scopes that hold right "
                          "after its own declaration; the pre-pass (hence bank fields) sees global names only; an undeclared name is an "
                          "error when the reference is evaluated (strict operators), not inside a branch that is never taken")
    fnd = Findings(chk)
    directed(chk, fnd, bins, model, names)
    stream_lookup(chk, fnd, bins, model, names, 6000 if quick else 40000)
    stream_program(chk, fnd, bins, model, names, 400 if quick else 3000, 40 if quick else 80)
    cases = chain_cases(chk.rng.fork("chain"), 2000 if quick else 15000)
    stream_rounds(chk, fnd, bins, model, names, cases)
    stream_lazy(chk, fnd, bins)
    stream_chain(chk, fnd, bins, model, names, cases)
    stream_order(chk, fnd, bins, model, names, 800 if quick else 6000)
    stream_cond(chk, fnd, bins, model, names, 3000 if quick else 25000)
    stream_instr(chk, fnd, bins, model, names, 2500 if quick else 20000)
    fnd.flush()


def replay(chk, rep):
    r = rep.get("replay", rep)
    bins = vlib.harness_build(("debug",))
    prog = r.get("program")
    if r.get("kind") == "lookup":
        paths = [p.split(".") for p in r.get("paths", [])]
        line = "Q\t%s\t%d\t%s" % (vlib.hx(prog), r.get("maxlevel", 5), "|".join(G.wire_path(p) for p in paths))
        out = vlib.run_lines([bins["debug"] + "/symbols"], [line], shards=1)
    elif r.get("kind") == "rounds":
        out = vlib.run_lines([bins["debug"] + "/symbols"], ["R\t%s\t%s" % ("1" if r.get("static", True) else "0", vlib.hx(prog))], shards=1)
    else:
        out = vlib.run_lines([bins["debug"] + "/asmtext"], ["A\t%d\t%s\t1\t%s" % (r.get("budget", BUDGET), r.get("static", "1"), vlib.hx(prog))], shards=1)
        f = out[0].split("\t")
        if f[0] == "OK":
            out = [show_view(impl_program(out[0]))]
        if r.get("program_b"):
            o2 = vlib.run_lines([bins["debug"] + "/asmtext"], ["A\t%d\t1\t1\t%s" % (BUDGET, vlib.hx(r["program_b"]))], shards=1)
            out.append("B: " + show_view(impl_program(o2[0])))
    print("program:\n%s\nimplementation now: %s\nrecorded impl: %s\nexpected (spec): %s" % (
        prog, "\n".join(out), r.get("impl"), r.get("spec", r.get("expected_final"))))
    if r.get("selected_world"):
        print("selected world (taken arms inlined), on which the specification was evaluated:\n%s" % r["selected_world"])
    return 0
