"""C04 — typed arguments and sized data accept exactly their range, never truncating.
Theorems: coq/Props/C04.v.  Streams: G-width through one-instruction / one-directive programs."""
import vlib

RULE = ("G-width: (type in u/s/i/#d) x width N x value v in [-2^N-4, 2^N+4] (exhaustive for N <= 8 quick, <= 13 thorough; "
        "boundary neighbourhoods for N up to 256; the same value arriving through a constant, a by-value local of an asm block or a nested sub-rule) x spelling (decimal, hex, binary, negated, expression, difference/sum of sized literals) assembled by the "
        "real crate as `t {x: TN} => x` / `#dN v`; non-trivial = distinct (type, N, v) with v within 4 of a range boundary")


def in_range(kind, n, v):
    """the property text itself"""
    if kind == "u":
        return 0 <= v < 2 ** n
    if kind == "s":
        return -(2 ** n) <= 2 * v < 2 ** n
    if kind in ("i", "d"):
        return -(2 ** n) <= 2 * v and v < 2 ** n
    raise ValueError(kind)


def low_bits(n, v):
    return "".join("1" if (v >> (n - 1 - i)) & 1 else "0" for i in range(n))


def spell(v, how):
    """returns (text, definite size or None)"""
    a = abs(v)
    if how == "dec":
        return str(v), None
    if how == "hex":
        d = "%x" % a
        return ("-0x" + d, None) if v < 0 else ("0x" + d, 4 * len(d))
    if how == "bin":
        d = bin(a)[2:]
        return ("-0b" + d, None) if v < 0 else ("0b" + d, len(d))
    if how == "neg":
        return "-(%d)" % (-v), None
    if how == "expr":
        return "(%d + 7) - 7" % v, None
    if how in ("subhex", "subhex1", "addhex"):
        # arithmetic on SIZED operands: the result is unsized whatever the operands' literal widths are
        if how == "addhex" and v >= 0:
            return "0x%x + 0b%s" % (v // 2, bin(v - v // 2)[2:]), None
        b = 1 if (how == "subhex1" and v + 1 >= 0) else a + 1
        return "0x%02x - 0x%x" % (v + b, b), None
    if how == "shl":
        # the value as a shifted small number (`1 << 63`): computed, unsized, exact at every magnitude
        if v == 0:
            return "(0 << 5)", None
        k = (a & -a).bit_length() - 1
        if k == 0:
            return ("(%d << 1) + 1" % (a >> 1) if v > 0 else "-((%d << 1) + 1)" % (a >> 1)), None
        return ("(%d << %d)" % (a >> k, k) if v > 0 else "-(%d << %d)" % (a >> k, k)), None
    raise ValueError(how)


SPELLINGS = ["dec", "hex", "bin", "neg", "expr", "subhex", "subhex1", "addhex", "shl"]


def boundaries(kind, n):
    if kind == "u":
        return [0, 2 ** n]
    if kind == "s":
        return [-(2 ** (n - 1)) if n > 0 else 0, 2 ** (n - 1) if n > 0 else 0]
    return [-(2 ** (n - 1)) if n > 0 else 0, 2 ** n]


def program(kind, n, text, unused=False):
    if kind == "d":
        return "#d%d %s\n" % (n, text)
    prod = "0x55" if unused else "x"
    return "#ruledef\n{\n    t {x: %s%d} => %s\n}\nt %s\n" % (kind, n, prod, text)


def program_route(kind, n, text, route):
    """the same typed parameter reached by a value that does not stand literally in the instruction"""
    if route == "via_const":
        return "#ruledef\n{\n    t {x: %s%d} => x\n}\nk = %s\nt k\n" % (kind, n, text)
    if route == "via_later_const":
        return "#ruledef\n{\n    t {x: %s%d} => x\n}\nt k\nk = %s\n" % (kind, n, text)
    if route.startswith("via_local:"):
        # an outer rule with a SIZED parameter (as wide as, or wider than, the inner one) hands the value on by value
        # (a local) into an asm block: the inner range rule is about the value, not about the size it carries
        return ("#ruledef\n{\n    t {x: %s%d} => x\n    w {y: %s} =>\n    {\n        q = y\n        asm { t {q} }\n    }\n}\nw %s\n" % (kind, n, route.split(":")[1], text))
    if route == "via_nested":
        return "#subruledef inner\n{\n    {x: %s%d} => x\n}\n#ruledef\n{\n    t {a: inner} => a\n}\nt %s\n" % (kind, n, text)
    raise ValueError(route)


ROUTES = ["via_const", "via_later_const", "via_local:s64", "via_local:s%d", "via_local:i%d", "via_local:u%d", "via_nested"]


def gen_cases(chk):
    quick = chk.tier == "quick"
    exh = 8 if quick else 13
    cases = []  # (kind, n, v, how)
    seen = set()

    def add(kind, n, v, how):
        k = (kind, n, v, how)
        if k not in seen:
            seen.add(k)
            cases.append(k)

    for kind in "usid":
        for n in range(0, 17):
            lo, hi = -(2 ** n) - 4, 2 ** n + 4
            bs = boundaries(kind, n)
            if n <= exh:
                for v in range(lo, hi + 1):
                    add(kind, n, v, SPELLINGS[(v + n) % len(SPELLINGS)])
            for b in bs + [lo + 4, hi - 4, 0]:
                for dv in range(-4, 5):
                    for how in SPELLINGS:
                        add(kind, n, b + dv, how)
        # sampled widths up to 256 around each boundary
        for n in sorted(set([17, 24, 31, 32, 33, 63, 64, 65, 100, 127, 128, 129, 255, 256] +
                            [chk.rng.range(17, 256) for _ in range(4 if quick else 40)])):
            for b in boundaries(kind, n) + [0]:
                for dv in (-2, -1, 0, 1, 2):
                    add(kind, n, b + dv, chk.rng.choice(SPELLINGS))
                    add(kind, n, b + dv, "shl")
    return cases


def is_known_width_zero(kind, n, v):
    return n == 0


def run(chk):
    chk.rule = RULE
    chk.prove()
    vlib.extraction("ExWidth")
    model = vlib.ocaml_build("width_driver", ["width_model"])
    bins = vlib.harness_build(("debug", "release"))
    known = {f["class"]: f for f in vlib.known_findings() if f["property"] == "C04" and f["status"] == "known"}
    cases = gen_cases(chk)
    # the "unused parameter" family: the range check applies whether or not the production reads x
    unused = [(k, n, v, "dec") for k in "usi" for n in (1, 4, 8) for b in boundaries(k, n) for v in (b - 1, b)]
    impl_lines, model_lines, meta = [], [], []
    for (kind, n, v, how) in cases:
        text, sz = spell(v, how)
        impl_lines.append("A\t10\t1\t1\t" + vlib.hx(program(kind, n, text)))
        if kind == "d":
            model_lines.append("D %d %x %s" % (n, v, "-" if sz is None else sz) if v >= 0 else "D %d -%x -" % (n, -v))
        else:
            model_lines.append("T %s %d %s" % (kind, n, ("%x" % v) if v >= 0 else "-%x" % -v))
        meta.append((kind, n, v, how, sz, False))
    for (kind, n, v, how) in unused:
        text, sz = spell(v, how)
        impl_lines.append("A\t10\t1\t1\t" + vlib.hx(program(kind, n, text, unused=True)))
        model_lines.append("T %s %d %s" % (kind, n, ("%x" % v) if v >= 0 else "-%x" % -v))
        meta.append((kind, n, v, how, sz, True))
    # the "route" family: the range rule is about the VALUE, whatever way it reaches the typed parameter
    for kind in "usi":
        for n in (1, 4, 8, 16):
            for b in boundaries(kind, n) + [0]:
                for dv in (-2, -1, 0, 1):
                    for route in ROUTES:
                        v = b + dv
                        if "%d" in route:
                            route = route % n
                        if route.startswith("via_local:") and not in_range(route[10], int(route[11:]), v):
                            continue          # the outer parameter itself rejects the value: not this family's subject
                        impl_lines.append("A\t10\t1\t1\t" + vlib.hx(program_route(kind, n, str(v), route)))
                        model_lines.append("T %s %d %s" % (kind, n, ("%x" % v) if v >= 0 else "-%x" % -v))
                        meta.append((kind, n, v, route, None, False))
    res = {}
    for prof in ("debug", "release"):
        res[prof] = vlib.run_lines([bins[prof] + "/asmtext"], impl_lines)
    mres = vlib.run_lines([model], model_lines)
    dist = {"accepted": 0, "rejected": 0}
    ndis = 0
    for idx, (kind, n, v, how, sz, un) in enumerate(meta):
        impl = res["debug"][idx]
        if impl != res["release"][idx]:
            chk.violation("debug and release builds disagree", {"kind": "profile-divergence", "program": vlib.unhx(impl_lines[idx].split("\t")[4]),
                                                                 "debug": impl, "release": res["release"][idx]})
            continue
        f = impl.split("\t")
        if f[0] == "OK":
            got = ("A", f[1])
        elif f[0] == "ERR":
            got = ("R", None)
        else:
            chk.violation("implementation crashed or was inconsistent: %s" % impl,
                          {"kind": "crash", "program": vlib.unhx(impl_lines[idx].split("\t")[4]), "impl": impl})
            continue
        m = mres[idx].split(" ")
        mod = ("A", m[1] if len(m) > 1 else "") if m[0] == "A" else ("R", None)
        # the property text as an executable predicate
        if kind == "d" and sz is not None:
            ok = sz <= n
        else:
            ok = in_range(kind, n, v)
        if un:
            spec = ("A", low_bits(8, 0x55)) if ok else ("R", None)
            if mod[0] == "A":
                mod = ("A", low_bits(8, 0x55))
        else:
            spec = ("A", low_bits(n, v)) if ok else ("R", None)
        dist["accepted" if got[0] == "A" else "rejected"] += 1
        near = any(abs(v - b) <= 4 for b in boundaries(kind if kind != "d" else "i", n))
        if near:
            chk.nontriv((kind, n, v, un))
        if got != spec:
            rep = {"kind": "range", "type": kind, "width": n, "value": v, "spelling": how, "unused_parameter": un,
                   "program": vlib.unhx(impl_lines[idx].split("\t")[4]), "impl": impl, "model": mres[idx],
                   "spec": {"accept": ok, "bits": spec[1]}}
            if is_known_width_zero(kind, n, v) and "typed_width_zero" in known and got == ("R", None) and got == mod:
                chk.known("F26", "class=typed_width_zero: width-0 type rejects the value 0 (e.g. %s%d with %d)" % (kind, n, 0))
            else:
                chk.violation("%s%d with %s (%s): implementation %s, the range rule says %s" % (
                    kind if kind != "d" else "#d", n, v, how, got, spec), rep)
        elif got != mod:
            ndis += 1
            chk.violation("model/implementation correspondence broken for %s%d value %s: impl %s model %s" % (kind, n, v, got, mod),
                          {"kind": "correspondence", "stream": "width", "program": vlib.unhx(impl_lines[idx].split("\t")[4]),
                           "impl": impl, "model": mres[idx], "theorems": ["C04_unsigned", "C04_signed", "C04_integer", "C04_data_unsized"]},
                          found=False)
        if idx % 5000 == 1:
            chk.sample({"program": vlib.unhx(impl_lines[idx].split("\t")[4]), "impl": impl, "model": mres[idx]})
    define_stream(chk)
    chk.count("width", len(meta), **dist)
    chk.cov["traces_validated_against_impl"] = len(meta)
    chk.cov["disagreements_checked"] = ndis
    chk.cov["exhaustive_widths"] = "0..%d" % (8 if chk.tier == "quick" else 13)


def define_stream(chk):
    """the same range rule for values that arrive from the command line: `-dX=<literal>` through the REAL binary; a negated
    literal is the unsized negation, a positive hex/binary literal carries its digit-count size (C18_define_*)"""
    import os, subprocess, tempfile, shutil
    exe = vlib.customasm_build(("debug",))["debug"]
    tmp = tempfile.mkdtemp(prefix="c04def", dir=vlib.CACHE)
    n_run = 0
    try:
        for n in (4, 8, 9, 16):
            with open(os.path.join(tmp, "d%d.asm" % n), "w") as f:
                f.write("X = 0\n#d%d X\n" % n)
            vals = sorted(set(b + dv for b in boundaries("d", n) + [0] for dv in (-2, -1, 0, 1)))
            for v in vals:
                for how in ("dec", "hex", "bin"):
                    text, sz = spell(v, how)
                    pr = subprocess.run([exe, "d%d.asm" % n, "-q", "-p", "-f", "binstr", "-dX=" + text], cwd=tmp, capture_output=True, text=True, timeout=60)
                    n_run += 1
                    ok = (sz <= n) if sz is not None else in_range("d", n, v)
                    want = low_bits(n, v) if ok else None
                    got = pr.stdout.strip() if pr.returncode == 0 else None
                    chk.nontriv(("define", n, v))
                    if got != want:
                        chk.violation("#d%d of a constant defined on the command line as %s: the binary %s, the range rule says %s" % (
                            n, text, "emits " + got if got is not None else "rejects it", "bits " + want if want is not None else "reject"),
                            {"kind": "define-range", "width": n, "value": v, "spelling": how, "args": ["-dX=" + text], "program": "X = 0\n#d%d X\n" % n,
                             "exit": pr.returncode, "stdout": pr.stdout[-300:], "stderr": pr.stderr[-300:]})
    finally:
        shutil.rmtree(tmp, ignore_errors=True)
    chk.count("define_range_runs", n_run)


def replay(chk, rep):
    bins = vlib.harness_build(("debug",))
    r = rep.get("replay", rep)
    prog = r.get("program")
    out = vlib.run_lines([bins["debug"] + "/asmtext"], ["A\t10\t1\t1\t" + vlib.hx(prog)], shards=1)
    print("program:\n%s\nimplementation now: %s\nrecorded: %s" % (prog, out[0], r.get("impl")))
    return 0
