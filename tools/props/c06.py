"""C06 — output layout is safe: no overlap, nothing leaves its bank, gaps are zero.
Theorems: coq/Props/C06.v.  Streams: overlap-ops (util::OverlapChecker driven directly), banks (G-banks whole
programs: impl vs model vs layout invariant on the impl's own output), rejections (directed must-reject /
must-accept boundary families), corpus (layout monitor on every successful assembly of /repo/tests)."""
import os, glob
import vlib
import layout_monitor as lm

RULE = ("G-banks: 0..5 user banks (address unit 1..32 bits, address start incl. negative, size none/0..12 units, output offsets "
        "contiguous / with gaps / overlapping / absent, fill, labelalign, definition order shuffled against output order, banks "
        "defined up front or in the middle) x item sequences (#d<N> with 1..3 elements, empty #d \"\", fixed-size instructions, "
        "labels and nested labels, constants, #res, #align, forward and backward #addr, #bank switches and re-entries), written "
        "as program TEXT for the real crate (debug and release) and as resolved nodes for the extracted model; overlap-ops: "
        "request sequences for OverlapChecker (exhaustive over a 3x3 alphabet up to length 3 (4 thorough), random with zero sizes, "
        "equal positions, descending order, positions near 2^64); rejections: boundary families for each bad class with the "
        "accepted neighbour; non-trivial = distinct program that assembles successfully with >= 2 items having bits, or is "
        "rejected by the implementation, or an ops sequence containing a zero size / equal position")

THEOREMS = ["C06_overlap_sound", "C06_overlap_complete", "C06_bank_windows", "C06_layout", "C06_rejects_past_size",
            "C06_position_address"]
U64 = (1 << 64) - 1


# ------------------------------------------------------------------------------------------------ overlap ops
def ops_cases(chk):
    rng = chk.rng.fork("ops")
    cases = []
    alpha = [(p, s) for p in (0, 4, 8) for s in (0, 4, 8)]
    maxlen = 3 if chk.tier == "quick" else 4

    def rec(prefix, n):
        if prefix:
            cases.append(("exh", list(prefix)))
        if n == 0:
            return
        for a in alpha:
            rec(prefix + [a], n - 1)
    rec([], maxlen)
    n = 20000 if chk.tier == "quick" else 200000
    for i in range(n):
        kind = rng.weighted([("small", 5), ("desc", 2), ("equal", 2), ("huge", 2), ("dense", 3)])
        ln = rng.range(1, 12)
        ops = []
        if kind == "small":
            for _ in range(ln):
                ops.append((rng.range(0, 40), rng.weighted([(0, 3), (1, 2), (rng.range(1, 12), 5)])))
        elif kind == "desc":
            p = rng.range(40, 200)
            for _ in range(ln):
                s = rng.weighted([(0, 2), (rng.range(1, 10), 5)])
                ops.append((p, s))
                p = max(0, p - rng.range(0, 12))
        elif kind == "equal":
            base = [rng.range(0, 30) for _ in range(3)]
            for _ in range(ln):
                ops.append((rng.choice(base), rng.weighted([(0, 4), (rng.range(1, 6), 4)])))
        elif kind == "huge":
            for _ in range(ln):
                s = rng.weighted([(0, 2), (rng.range(1, 64), 5)])
                p = U64 - s - rng.range(0, 80)
                ops.append((p, s))
        else:
            for _ in range(ln + 8):
                ops.append((rng.range(0, 16), rng.range(0, 3)))
        cases.append((kind, ops))
    # overflow family (position + size beyond usize): only the debug profile is comparable (panic)
    for i in range(40):
        ops = [(rng.range(0, 50), rng.range(1, 8)) for _ in range(rng.range(0, 3))]
        ops.append((U64 - rng.range(0, 5), rng.range(6, 20)))
        ops.append((rng.range(0, 50), rng.range(1, 8)))
        cases.append(("overflow", ops))
    return cases


def py_disjoint(a, b):
    return a[0] + a[1] <= b[0] or b[0] + b[1] <= a[0]


def ops_spec_violation(ops, trace):
    """the property: accepted positive-size requests are pairwise disjoint; returns a pair of indices or None"""
    acc = [(i, o) for i, (o, t) in enumerate(zip(ops, trace)) if t == "A" and o[1] > 0]
    for x in range(len(acc)):
        for y in range(x + 1, len(acc)):
            if not py_disjoint(acc[x][1], acc[y][1]):
                return acc[x][0], acc[y][0]
    return None


def run_ops(chk, bins, model, known):
    cases = ops_cases(chk)
    impl_lines = ["O\t" + ";".join("%d,%d" % o for o in ops) for _, ops in cases]
    model_lines = ["O " + ";".join("%x,%x" % o for o in ops) for _, ops in cases]
    res = {p: vlib.run_lines([bins[p] + "/overlap"], impl_lines) for p in ("debug", "release")}
    mres = vlib.run_lines([model], model_lines)
    dist = {"accepted_all": 0, "some_rejected": 0, "panic": 0, "with_zero_size": 0}
    ndis = 0
    for idx, (kind, ops) in enumerate(cases):
        d, r = res["debug"][idx], res["release"][idx]
        m = mres[idx].split(" ")
        mfix, mpin, mspec = m[0], m[1] if len(m) > 1 else "?", m[2] if len(m) > 2 else "?"
        rep = {"kind": "overlap-ops", "family": kind, "ops": ops, "debug": d, "release": r, "model": mfix, "model_pinned": mpin}
        if any(s == 0 for _, s in ops):
            dist["with_zero_size"] += 1
        if any(s == 0 for _, s in ops) or len(set(p for p, _ in ops)) < len(ops):
            chk.nontriv(("ops", tuple(ops)))
        if kind == "overflow":
            dist["panic"] += 1
            if d != mfix:
                v = ops_spec_violation(ops, d)
                if v and d == mpin and "zero_size_entry_hides_overlap" in known:
                    chk.known("F19", "class=zero_size_entry_hides_overlap")
                else:
                    chk.violation("overlap checker (debug) %s differs from the model %s on an overflowing request sequence" % (d, mfix), rep, found=bool(v))
            continue
        if d != r:
            chk.violation("debug and release builds disagree on OverlapChecker sequence", dict(rep, kind="profile-divergence"))
            continue
        if "P" in d:
            dist["panic"] += 1
        elif "R" in d:
            dist["some_rejected"] += 1
        else:
            dist["accepted_all"] += 1
        bad = ops_spec_violation(ops, d)
        if bad is not None:
            rep["overlapping_requests"] = [ops[bad[0]], ops[bad[1]]]
            zero_between = any(s == 0 for _, s in ops)
            if d == mpin and zero_between and "zero_size_entry_hides_overlap" in known:
                chk.known("F19", "class=zero_size_entry_hides_overlap: a zero-sized entry makes the checker accept requests sharing bits, e.g. %s" % (ops,))
            else:
                chk.violation("OverlapChecker accepted requests %s and %s that share output bits (sequence %s -> %s)" % (
                    ops[bad[0]], ops[bad[1]], ops, d), rep)
        elif d != mfix:
            ndis += 1
            chk.violation("model/implementation correspondence broken for OverlapChecker sequence %s: impl %s model %s" % (ops, d, mfix),
                          dict(rep, theorems=["C06_overlap_sound", "C06_overlap_complete"]), found=False)
        elif mspec != "1":
            chk.violation("extracted spec predicate rejects the model's own accepted set", rep, found=False)
        if idx % 2500 == 7:
            chk.sample({"ops": ops, "impl": d, "model": mfix})
    chk.count("overlap-ops", len(cases), **dist)
    return len(cases), ndis


# ------------------------------------------------------------------------------------------------ G-banks
RULEDEF = "#ruledef\n{\n    ia => 0b101\n    ib {x: u4} => 0x9 @ x\n    ic => 0xbeef\n    id {x: u3} => x\n}\n"


def bits_of(v, w):
    return "".join("1" if (v >> (w - 1 - i)) & 1 else "0" for i in range(w))


class Prog:
    """a program as text (for the implementation) and as resolved nodes (for the model)"""

    def __init__(self):
        self.text = []
        self.nodes = []
        self.banks = [{"addr": 0, "unit": 8, "labelalign": None, "size": None, "outp": 0, "fill": False}]
        self.names = [None]
        self.cur = 0
        self.pos = {0: 0}       # steering only (not a verdict): approximate cursor per bank, in bits
        self.labels = 0
        self.span_kinds = []    # 'l' / 'e' per span the implementation should record, in order
        self.uses_instr = False
        self.no_model = False   # the case is outside what the model represents (e.g. address unit 0): implementation only

    def bankdef(self, b, name, style):
        i = len(self.banks)
        self.banks.append(b)
        self.names.append(name)
        f = ["#bits %d" % b["unit"]] if (b["unit"] != 8 or style & 1) else []
        if b["addr"] != 0 or style & 2:
            f.append("#addr %s" % (("0x%x" % b["addr"]) if b["addr"] >= 0 else ("-0x%x" % -b["addr"])))
        if b["size"] is not None:
            if style & 4:
                f.append("#addr_end %s" % (b["addr"] + b["size"] // b["unit"] if b["addr"] + b["size"] // b["unit"] >= 0 else "-%d" % -(b["addr"] + b["size"] // b["unit"])))
            else:
                f.append("#size %d" % (b["size"] // b["unit"]))
        if b["outp"] is not None:
            f.append("#outp %d" % b["outp"])
        if b["fill"]:
            f.append("#fill")
        if b["labelalign"] is not None:
            f.append("#labelalign %d" % b["labelalign"])
        if style & 8 and not b["fill"]:      # `#fill` must be followed by a line break
            self.text.append("#bankdef %s { %s }" % (name, ", ".join(f)))
        else:
            self.text.append("#bankdef %s\n{\n%s\n}" % (name, "\n".join("    " + x for x in f)))
        self.nodes.append("b%d" % i)
        self.cur = i
        self.pos.setdefault(i, 0)

    def bank(self, i):
        self.text.append("#bank %s" % self.names[i])
        self.nodes.append("b%d" % i)
        self.cur = i
        self.pos.setdefault(i, 0)

    def unit(self):
        return self.banks[self.cur]["unit"]

    def data(self, w, vals):
        # a hex literal has the definite size 4 x digits, so it is only used when that is exactly w
        self.text.append("#d%d %s" % (w, ", ".join(("0x%0*x" % (w // 4, v)) if (w % 4 == 0 and (v + w) % 3) else str(v) for v in vals)))
        for v in vals:
            self.nodes.append("e" + bits_of(v, w))
            self.span_kinds.append("e")
            self.pos[self.cur] += w

    def empty(self):
        self.text.append('#d ""')
        self.nodes.append("e")
        self.span_kinds.append("e")

    def instr(self, k, x=0):
        self.uses_instr = True
        if k == "ia":
            self.text.append("ia"); bits = "101"
        elif k == "ib":
            self.text.append("ib %d" % x); bits = "1001" + bits_of(x, 4)
        elif k == "ic":
            self.text.append("ic"); bits = bits_of(0xbeef, 16)
        else:
            self.text.append("id %d" % x); bits = bits_of(x, 3)
        self.nodes.append("e" + bits)
        self.span_kinds.append("e")
        self.pos[self.cur] += len(bits)

    def label(self, nested=False):
        self.labels += 1
        b = self.banks[self.cur]
        if nested:
            self.text.append(".s%d:" % self.labels)
            self.nodes.append("l00")
        else:
            self.text.append("l%d:" % self.labels)
            self.nodes.append("l10")
            if b["labelalign"]:
                self.align_steer(b["labelalign"])
        self.span_kinds.append("l")

    def constant(self):
        self.labels += 1
        b = self.banks[self.cur]
        self.text.append("k%d = %d" % (self.labels, self.labels))
        self.nodes.append("c1")
        if b["labelalign"]:
            self.align_steer(b["labelalign"])

    def align_steer(self, a):
        b = self.banks[self.cur]
        if a > 0:
            cur = b["addr"] * b["unit"] + self.pos[self.cur]
            if cur >= 0 and cur % a:
                self.pos[self.cur] += a - cur % a

    def res(self, n):
        self.text.append("#res %d" % n)
        self.nodes.append("r%x" % (n * self.unit()))
        self.pos[self.cur] += n * self.unit()

    def align(self, a):
        self.text.append("#align %d" % a)
        self.nodes.append("a%x" % a)
        self.align_steer(a)

    def addr(self, a):
        self.text.append("#addr %s" % (("0x%x" % a) if a >= 0 else ("-0x%x" % -a)))
        self.nodes.append("@" + lm.hx(a))
        b = self.banks[self.cur]
        self.pos[self.cur] = max(0, (a - b["addr"]) * b["unit"])

    def other(self):
        self.text.append("#assert 1 == 1")
        self.nodes.append("o")

    def render(self):
        return (RULEDEF if self.uses_instr else "") + "\n".join(self.text) + "\n"

    def model_line(self):
        return "B %s %s" % (";".join(lm.bank_field(b) for b in self.banks), ";".join(self.nodes) or "-")


def gen_banks(rng, p, nb, flavour, risky=True):
    """append nb bank definitions (returned as list of dicts, not yet defined in p)"""
    banks = []
    o = rng.choice([0, 0, 0, 8, 3, 64])
    for k in range(nb):
        unit = rng.weighted([(8, 6), (1, 2), (3, 2), (4, 2), (16, 2), (24, 1), (32, 2), (rng.range(1, 32), 6)])
        addr = rng.weighted([(0, 5), (rng.range(1, 64), 3), (0x8000, 2), (0xffff0000, 1), (-rng.range(1, 16), 1), (1 << rng.range(20, 70), 1)])
        size_units = rng.weighted([(None, 2), (rng.range(1, 12), 8), (0, 1)]) if risky else rng.weighted([(None, 2), (rng.range(6, 40), 8)])
        last = (k == nb - 1)
        if size_units is None and not last and flavour != "overlap" and rng.chance(0.8):
            size_units = rng.range(1, 12)
        size = None if size_units is None else size_units * unit
        outp = o
        if rng.chance(0.12 if risky else 0.05):
            outp = None
        fill = rng.chance(0.4)
        la = rng.weighted([(None, 6), (unit, 1), (2 * unit, 1), (4 * unit, 1), (rng.range(1, 40), 1 if risky else 0), (0, 1)])
        banks.append({"addr": addr, "unit": unit, "labelalign": la, "size": size, "outp": outp, "fill": fill})
        if outp is not None:
            adv = size if size is not None else rng.range(8, 64)
            if flavour == "gaps":
                adv += rng.choice([0, 1, 5, 8, 16])
            elif flavour == "overlap" and rng.chance(0.5):
                adv = max(0, adv - rng.range(1, 4))
            o = outp + adv
    return banks


def gen_items(rng, p, n, risky):
    nb = len(p.banks)
    for _ in range(n):
        u = p.unit()
        b = p.banks[p.cur]
        kind = rng.weighted([("data", 10), ("datam", 3), ("instr", 3), ("label", 4), ("nested", 1), ("const", 1), ("res", 4),
                             ("align", 2), ("addr", 3), ("bank", 3 if nb > 1 else 0), ("empty", 1), ("res0", 1), ("other", 1)])
        if not risky:
            room = None if b["size"] is None else b["size"] - p.pos[p.cur]
            if kind in ("data", "datam", "instr", "empty") and b["outp"] is None:
                kind = "res"
            if kind == "instr" and (u not in (1, 3) or (room is not None and room < 16)):
                kind = "data"
            if kind in ("data", "datam", "res") and room is not None and room < 4 * u:
                kind = "label" if room >= 0 and p.pos[p.cur] % u == 0 else "other"
            if kind == "label" and p.pos[p.cur] % u != 0:
                kind = "other"
            if kind == "align" and u not in (1, 2, 4, 8, 16, 32):
                kind = "other"
        if kind in ("data", "datam"):
            cnt = 1 if kind == "data" else rng.range(2, 3)
            if risky and rng.chance(0.25):
                w = rng.range(1, 32)
            else:
                ks = [k for k in (1, 2, 3, 4) if k * u <= 64]
                w = u * rng.choice(ks) if ks else u
            p.data(w, [rng.below(1 << w) for _ in range(cnt)])
        elif kind == "instr":
            k = rng.choice(["ia", "ib", "ic", "id"]) if (risky or u == 1) else rng.choice(["ia", "id"])
            p.instr(k, rng.below(16 if k == "ib" else 8))
        elif kind == "label":
            p.label()
        elif kind == "nested":
            if p.labels:
                p.label(nested=True)
        elif kind == "const":
            p.constant()
        elif kind == "res":
            p.res(rng.range(1, 4))
        elif kind == "res0":
            p.res(0)
        elif kind == "align":
            p.align(rng.weighted([(u, 3), (2 * u, 3), (4 * u, 2), (rng.range(1, 48), 2), (0, 1 if risky else 0), (64, 1)]))
        elif kind == "addr":
            here = b["addr"] + p.pos[p.cur] // u
            if rng.chance(0.6):
                a = here + rng.range(0, 4)          # forward (gap of zeros) or same place
                if not risky and b["size"] is not None:
                    a = min(a, b["addr"] + b["size"] // u - 1)
            else:
                a = here - rng.range(1, 6)          # backward
                if not risky:
                    a = max(a, b["addr"])
            p.addr(a)
        elif kind == "bank":
            p.bank(rng.range(1, nb - 1))
        elif kind == "empty":
            p.empty()
        else:
            p.other()


def gen_program(rng):
    p = Prog()
    flavour = rng.weighted([("contiguous", 4), ("gaps", 4), ("overlap", 1)])
    nb = rng.weighted([(0, 2), (1, 4), (2, 4), (3, 3), (4, 2), (5, 2)])
    risky = rng.chance(0.3)
    banks = gen_banks(rng, p, nb, flavour, risky)
    order = list(range(nb))
    if rng.chance(0.5):
        order = rng.shuffle(order)
    late = order[-1:] if (nb >= 2 and rng.chance(0.25)) else []
    if nb and risky and rng.chance(0.08):
        gen_items(rng, p, rng.range(1, 2), risky)          # items in the default bank before any #bankdef
    for k in order:
        if k in late:
            continue
        p.bankdef(banks[k], "b%d" % k, rng.below(16))
        if rng.chance(0.3):
            gen_items(rng, p, rng.range(1, 4), risky)
    if nb > 1 and rng.chance(0.8):
        p.bank(rng.range(1, len(p.banks) - 1))
    gen_items(rng, p, rng.range(1, 14), risky)
    for k in late:
        p.bankdef(banks[k], "b%d" % k, rng.below(16))
        gen_items(rng, p, rng.range(0, 5), risky)
    return p


# ------------------------------------------------------------------------------------------------ directed rejection families
def rejection_cases(chk):
    """(family, must_reject, Prog).  Each bad class next to its accepted neighbour."""
    rng = chk.rng.fork("rej")
    out = []
    units = [1, 3, 4, 7, 8, 12, 16, 24, 32] if chk.tier == "quick" else list(range(1, 33))

    def one(unit, size_units, outp=0, fill=False, la=None, addr=0):
        p = Prog()
        p.bankdef({"addr": addr, "unit": unit, "labelalign": la, "size": None if size_units is None else size_units * unit,
                   "outp": outp, "fill": fill}, "a", 1)
        return p
    for u in units:
        for n in (1, 2, 5):
            # past bank size by data / by reservation / label beyond the end
            for extra, rej in ((0, False), (1, True)):
                p = one(u, n, fill=bool(n & 1), addr=rng.choice([0, 0x100]))
                for _ in range(n):
                    p.data(u, [rng.below(1 << u)])
                if extra:
                    p.data(1, [1])
                out.append(("past_size_data", rej, p))
                p = one(u, n)
                p.res(n + extra)
                out.append(("past_size_res", rej, p))
                p = one(u, n)
                p.res(n + extra)
                p.label()
                out.append(("past_size_label", rej, p))
        # overlapping windows: second bank starts 1 bit early / exactly adjacent; both orders of definition
        s1 = 3 * u
        for delta, rej in ((0, False), (-1, True)):
            for swap in (False, True):
                p = Prog()
                b1 = {"addr": 0, "unit": u, "labelalign": None, "size": s1, "outp": 5, "fill": False}
                b2 = {"addr": 0, "unit": 8, "labelalign": None, "size": 16, "outp": 5 + s1 + delta, "fill": True}
                for b, nm in ((b2, "y"), (b1, "x")) if swap else ((b1, "x"), (b2, "y")):
                    p.bankdef(b, nm, 9)
                p.data(b1["unit"] if swap else 8, [1])
                out.append(("windows_overlap", rej, p))
        # an unbounded bank in front of another one / behind it
        for first_unbounded, rej in ((True, True), (False, False)):
            p = Prog()
            if first_unbounded:
                p.bankdef({"addr": 0, "unit": u, "labelalign": None, "size": None, "outp": 0, "fill": False}, "x", 1)
                p.bankdef({"addr": 0, "unit": 8, "labelalign": None, "size": 8, "outp": 64, "fill": False}, "y", 1)
            else:
                p.bankdef({"addr": 0, "unit": 8, "labelalign": None, "size": 64, "outp": 0, "fill": False}, "y", 1)
                p.bankdef({"addr": 0, "unit": u, "labelalign": None, "size": None, "outp": 64, "fill": False}, "x", 1)
            p.data(8 if first_unbounded else u, [0])
            out.append(("windows_unbounded", rej, p))
        # overlapping items via backward #addr: re-write the last address / the address after it
        for back, rej in ((1, True), (0, False)):
            p = one(u, 8)
            p.data(u, [1]); p.data(u, [0])
            p.addr(2 - back)
            p.data(u, [1])
            out.append(("items_overlap_addr", rej, p))
            p = one(u, 8)
            p.res(2)
            p.addr(2 - back)
            p.data(u, [1])
            out.append(("items_overlap_res", rej, p))
            # the same with a zero-sized reservation in between (F19)
            p = one(u, 8)
            p.data(u, [1]); p.data(u, [0])
            p.addr(2 - back)
            p.res(0)
            p.data(u, [1])
            out.append(("items_overlap_zero_res", rej, p))
            p = one(u, 8)
            p.data(2 * u, [1])
            p.addr(0)
            p.res(0)
            p.addr(2 - back)
            p.data(u, [1])
            out.append(("items_overlap_zero_res_shifted", rej, p))
        # bank without outp: data is rejected, reservations and labels are fine
        for what, rej in (("data", True), ("res", False), ("label", False), ("instr", True)):
            p = one(u, 4, outp=None)
            if what == "data":
                p.data(u, [0])
            elif what == "res":
                p.res(1)
            elif what == "instr":
                p.instr("ic")
            else:
                p.label()
            out.append(("no_outp_" + what, rej, p))
        # default bank after #bankdef
        for what, rej in (("data", True), ("label", True), ("res", True), ("const", False)):
            p = Prog()
            if what == "data":
                p.data(8, [1])
            elif what == "label":
                p.label()
            elif what == "res":
                p.res(1)
            else:
                p.constant()
            p.bankdef({"addr": 0, "unit": u, "labelalign": None, "size": None, "outp": 0, "fill": False}, "a", 1)
            p.data(u, [0])
            out.append(("default_bank_" + what, rej, p))
        # misaligned label: w bits of data then a label
        for w in sorted(set([1, u - 1, u, u + 1, 2 * u]) - {0}):
            if w > 64:
                continue
            p = one(u, None)
            p.data(w, [rng.below(1 << w)])
            p.label()
            out.append(("misaligned_label", w % u != 0, p))
        # labelalign that is not a multiple of the unit leaves the label between addresses
        for la in sorted(set([u, 2 * u, u + 1, 3 * u - 1]) - {0}):
            p = one(u, None, la=la)
            p.data(u, [1])
            p.label()
            p.data(u, [1])
            # after u bits, aligning to la: position becomes the next multiple of la; aligned iff that is a multiple of u
            nxt = ((u + la - 1) // la) * la
            out.append(("labelalign_misaligned", nxt % u != 0, p))
    # machine-word extremes (findings F13, F14, F15, F37, F38, F42): every one must be a clean error
    def bank(unit, size_units=None, outp=0, addr=0, fill=False):
        return {"addr": addr, "unit": unit, "labelalign": None, "size": None if size_units is None else size_units * unit,
                "outp": outp, "fill": fill}
    p = Prog(); p.bankdef(bank(1 << 60), "a", 1); p.res(16); p.label()
    out.append(("extreme_unit_res_F13", True, p))
    p = Prog(); p.bankdef(bank(1 << 60, 16), "a", 1); p.data(8, [1]); p.no_model = True
    out.append(("extreme_unit_size_F14", True, p))
    p = Prog(); p.bankdef(bank(8), "a", 1); p.text[-1] = p.text[-1].replace("#bits 8", "#bits 0"); p.data(8, [1]); p.no_model = True
    out.append(("unit_zero_F15", True, p))
    for a in (1 << 48, (1 << 61) - 1, 1 << 61):
        p = Prog(); p.addr(a); p.data(8, [1])
        out.append(("extreme_addr_F37", True, p))
    p = Prog(); p.data(8, [1]); p.align(1 << 52); p.data(8, [2])
    out.append(("extreme_align_F37", True, p))
    p = Prog(); p.res(0xffffffff); p.data(8, [2])
    out.append(("extreme_res_F37", True, p))
    p = Prog(); p.bankdef(bank(8, 0x10000000000 // 8, fill=True), "a", 1); p.data(8, [1])
    out.append(("extreme_fill_F37", True, p))
    for u in (1 << 63, (1 << 63) + 5, 1 << 62):
        p = Prog(); p.bankdef(bank(u), "a", 1); p.addr(6); p.label()
        out.append(("extreme_unit_addr_F38", True, p))
    # regression for F48 (fixed, /repo abbd199): the END of a bank window (outp + size) is not representable -- it ends after
    # everything; no panic, debug = release = model
    for (o1, s1) in ((U64, 1), (U64 - 7, 16), (U64 - 1, 2)):
        p = Prog()
        p.bankdef({"addr": 0, "unit": 1, "labelalign": None, "size": s1, "outp": o1, "fill": False}, "a", 1)
        p.bankdef({"addr": 0, "unit": 1, "labelalign": None, "size": 1, "outp": 0, "fill": False}, "b", 1)
        out.append(("window_end_overflow_F48", None, p))
    # only WRITES are compared with BIGINT_MAX_BITS (commit 79637a5): labels and reservations far out are fine
    for what in ("label", "res"):
        p = Prog(); p.addr(0x10000000)
        if what == "label":
            p.label()
        else:
            p.res(1)
        out.append(("huge_position_unwritten_" + what, False, p))
    # regression for F61 (fixed, /repo 6fb2301): outp + position of an unwritten item is not representable -- the label gets no
    # span position, the #res skips the overlap insertion; no panic, debug = release = model
    p = Prog(); p.bankdef(bank(8, None, outp=U64), "a", 1); p.res(1); p.label()
    out.append(("output_position_overflow_F61", None, p))
    p = Prog(); p.bankdef(bank(0x80000000), "a", 1); p.res(0xffffffff); p.res(0xffffffff); p.res(4); p.label()
    out.append(("extreme_position_wrap_F42", True, p))
    return out


# ------------------------------------------------------------------------------------------------ comparison
def canon_impl(ans):
    f = ans.split("\t")
    if f[0] == "OK":
        return "OK"
    if f[0] == "ERR":
        return "ERR"
    return f[0]


def impl_spans(ans):
    d = lm.parse_answer(ans)
    return d


def compare_program(chk, p, family, must_reject, d, r, m, known, stats):
    """d, r: implementation answers (debug, release); m: model answer.  Returns True if everything agreed."""
    prog = p.render()
    rep = {"kind": "banks-program", "family": family, "program": prog, "model_case": p.model_line(), "debug": d[:2000], "release": r[:2000], "model": m[:2000]}
    if d != r:
        chk.violation("debug and release builds disagree (%s)" % family, dict(rep, kind="profile-divergence"))
        return False
    ci = canon_impl(d)
    mf = m.split(" ")
    cm = mf[0]
    if ci not in ("OK", "ERR"):
        stats["crash"] += 1
        chk.violation("implementation crashed or was inconsistent (%s): %s" % (family, d[:80]), dict(rep, kind="crash"))
        return False
    stats[ci] += 1
    ok = True
    # 1. the property on the implementation's own output
    if ci == "OK":
        probs = lm.check_layout(d)
        dd = lm.parse_answer(d)
        # labels (known to the generator) must sit exactly at their address
        if dd and len(dd["spans"]) == len(p.span_kinds):
            inf = lm.infer_banks(dd["banks"], dd["spans"])
            for k, (s, kind, bi) in enumerate(zip(dd["spans"], p.span_kinds, inf)):
                if kind == "l" and s["off"] is not None and bi is not None:
                    b = dd["banks"][bi]
                    if (s["addr"] - b["addr"]) * b["unit"] != s["off"] - b["outp"]:
                        probs.append({"class": "label_not_at_its_address", "what": "label span %d: offset %d address %#x" % (k, s["off"], s["addr"])})
        elif dd:
            probs.append({"class": "span_count", "what": "implementation recorded %d spans, program has %d" % (len(dd["spans"]), len(p.span_kinds))})
        for pr in probs:
            ok = False
            if pr["class"] in known:
                chk.known(known[pr["class"]]["id"], "class=%s: %s" % (pr["class"], pr["what"]))
            else:
                chk.violation("layout invariant broken on the implementation's output (%s): %s" % (pr["class"], pr["what"]),
                              dict(rep, problem=pr))
        if must_reject is True:
            ok = False
            chk.violation("program of the must-reject family %s was assembled" % family, dict(rep, expected="ERR"))
    elif must_reject is False:
        ok = False
        chk.violation("program of the must-accept family %s was rejected" % family, dict(rep, expected="OK"))
    # 2. correspondence with the model
    if p.no_model:
        return ok
    if cm == "PANIC" or cm == "?":
        ok = False
        chk.violation("model answered %s where the implementation answered %s (%s)" % (cm, ci, family),
                      dict(rep, theorems=THEOREMS), found=False)
    elif cm != ci:
        if ok:
            chk.violation("model/implementation correspondence broken (%s): impl %s model %s" % (family, ci, cm),
                          dict(rep, theorems=THEOREMS), found=False)
        ok = False
    elif ci == "OK":
        dd = lm.parse_answer(d)
        mbits = "" if mf[1] == "-" else mf[1]
        mspans = [] if mf[2] == "-" else [x.split(",") for x in mf[2].split(";")]
        same = dd["bits"] == mbits and len(mspans) == len(dd["spans"])
        if same:
            for s, ms, kind in zip(dd["spans"], mspans, p.span_kinds):
                mo = None if ms[1] == "-" else int(ms[1], 16)
                if s["off"] != mo or s["size"] != int(ms[2], 16) or (kind == "e" and s["addr"] != lm.shex(ms[3])):
                    same = False
        if not same:
            if ok:
                chk.violation("model/implementation correspondence broken (%s): same verdict, different bits or spans" % family,
                              dict(rep, theorems=THEOREMS), found=False)
            ok = False
        flags = mf[3] if len(mf) > 3 else ""
        # flags: item_ok, disjoint, unwritten_zero, length_exact, content_ok, windows_ok on the MODEL's result
        if flags[:3] != "111" or flags[4:6] != "11" or (flags[3] != "1" and not any(n == "e" for n in p.nodes)):
            chk.violation("the model's own result fails the extracted invariant (flags %s): theorem C06_layout would be false" % flags,
                          dict(rep, theorems=["C06_layout"]), found=False)
            ok = False
    return ok


def run(chk):
    chk.rule = RULE
    chk.prove()
    vlib.extraction("ExLayout")
    model = vlib.ocaml_build("layout_driver", ["layout_model"])
    bins = vlib.harness_build(("debug", "release"))
    known = {f["class"]: f for f in vlib.known_findings() if f.get("property") == "C06" and f.get("status") == "known" and f.get("class")}
    nops, ndis = run_ops(chk, bins, model, known)

    # ---- whole programs
    rng = chk.rng.fork("banks")
    n = 12000 if chk.tier == "quick" else 120000
    progs = [("G-banks", None, gen_program(rng)) for _ in range(n)]
    progs += rejection_cases(chk)
    impl_lines = ["A\t10\t1\t1\t" + vlib.hx(p.render()) for _, _, p in progs]
    model_lines = [p.model_line() for _, _, p in progs]
    res = {pr: vlib.run_lines([bins[pr] + "/overlap"], impl_lines) for pr in ("debug", "release")}
    mres = vlib.run_lines([model], model_lines)
    stats = {"OK": 0, "ERR": 0, "crash": 0}
    fam = {}
    agreed = 0
    nbanks_hist = {}
    for idx, (family, must, p) in enumerate(progs):
        d, r, m = res["debug"][idx], res["release"][idx], mres[idx]
        if compare_program(chk, p, family, must, d, r, m, known, stats):
            agreed += 1
        else:
            ndis += 1
        fam[family] = fam.get(family, 0) + 1
        nbanks_hist[len(p.banks) - 1] = nbanks_hist.get(len(p.banks) - 1, 0) + 1
        if d.startswith("ERR") or (d.startswith("OK") and sum(1 for x in p.nodes if x.startswith("e") and len(x) > 1) >= 2):
            chk.nontriv(("prog", p.render()))
        if idx % 700 == 3:
            chk.sample({"family": family, "program": p.render(), "impl": d[:300], "model": m[:300]})
    chk.count("banks", n, accepted=stats["OK"], rejected=stats["ERR"], crashed=stats["crash"])
    chk.count("rejections", len(progs) - n, **{k: v for k, v in fam.items() if k != "G-banks"})
    chk.cov["user_banks_histogram"] = {str(k): v for k, v in sorted(nbanks_hist.items())}

    # ---- the extracted predicate on the implementation's own output (all successful programs of this run)
    oks = [a for a in res["debug"] if a.startswith("OK")]
    ext = lm.check_layout_extracted(model, oks)
    nbad = 0
    for a, fl in zip(oks, ext):
        if fl is None:
            continue
        py = lm.check_layout(a)
        pyclasses = set(x["class"] for x in py)
        bad = [k for k, v in fl.items() if v is not True]
        # the two evaluations of the property must agree (the zero-size class shows as length_exact only)
        expect_bad = set()
        for c in pyclasses:
            expect_bad.add({"item_outside_bank": "item_ok", "item_position_formula": "item_ok", "mark_outside_bank": "item_ok",
                            "items_overlap": "disjoint", "unwritten_bit_set": "unwritten_zero", "length_not_exact": "length_exact",
                            "zero_size_item_extends_output": "length_exact", "bank_windows_overlap": "windows_ok"}.get(c, c))
        expect_bad.discard("mark_position_formula")
        if set(bad) != expect_bad:
            nbad += 1
            chk.violation("extracted layout_ok %s and the Python reading %s disagree on an implementation output" % (bad, sorted(pyclasses)),
                          {"kind": "monitor-disagreement", "answer": a[:3000]}, found=False)
    chk.count("extracted-layout_ok-on-impl-output", len([e for e in ext if e is not None]), disagreements=nbad)

    # ---- corpus: the monitor on every successful assembly of the repository's tests
    files = sorted(glob.glob(os.path.join(vlib.REPO, "tests", "**", "*.asm"), recursive=True))
    clines, cfiles = [], []
    for f in files:
        try:
            src = open(f, encoding="utf-8").read()
        except Exception:
            continue
        cfiles.append(os.path.relpath(f, vlib.REPO))
        clines.append("A\t10\t1\t1\t" + vlib.hx(src))
    cres = vlib.run_lines([bins["debug"] + "/overlap"], clines)
    cok = 0
    for f, a in zip(cfiles, cres):
        if not a.startswith("OK"):
            continue
        cok += 1
        for pr in lm.check_layout(a):
            if pr["class"] in known:
                chk.known(known[pr["class"]]["id"], "class=%s: %s (%s)" % (pr["class"], pr["what"], f))
            else:
                chk.violation("layout invariant broken on corpus file %s (%s): %s" % (f, pr["class"], pr["what"]),
                              {"kind": "corpus", "file": f, "program": open(os.path.join(vlib.REPO, f), encoding="utf-8").read(), "problem": pr, "debug": a[:2000]})
    cext = lm.check_layout_extracted(model, [a for a in cres if a.startswith("OK")])
    chk.count("corpus", len(cfiles), assembled=cok, extracted_evaluated=len([e for e in cext if e is not None]))
    for a, fl in zip([a for a in cres if a.startswith("OK")], cext):
        if fl and not all(v is True for v in fl.values()) and not lm.check_layout(a):
            chk.violation("extracted layout_ok fails on a corpus output that the Python reading accepts: %s" % fl,
                          {"kind": "monitor-disagreement", "answer": a[:3000]}, found=False)
    chk.cov["traces_validated_against_impl"] = nops + len(progs)
    chk.cov["disagreements_checked"] = ndis
    # concrete failing inputs first (the first replays written are then real witnesses)
    chk.violations.sort(key=lambda v: not v[2])
    # the resolver model with banks (Model/Resolver2.v): layout of whole generated programs
    import ext_resolver2
    ext_resolver2.run_streams(chk, chk.tier == "quick", which=("layout",))


def replay(chk, rep):
    bins = vlib.harness_build(("debug", "release"))
    r = rep.get("replay", rep)
    if r.get("kind") == "overlap-ops" or "ops" in r:
        line = "O\t" + ";".join("%d,%d" % tuple(o) for o in r["ops"])
        for pr in ("debug", "release"):
            out = vlib.run_lines([bins[pr] + "/overlap"], [line], shards=1)
            print("ops %s\n%s now: %s   recorded: %s   model: %s" % (r["ops"], pr, out[0], r.get(pr), r.get("model")))
        return 0
    prog = r.get("program")
    if prog is None:
        print("nothing to replay: %s" % (r,))
        return 0
    for pr in ("debug", "release"):
        out = vlib.run_lines([bins[pr] + "/overlap"], ["A\t10\t1\t1\t" + vlib.hx(prog)], shards=1)
        print("program:\n%s\n%s now: %s\nrecorded: %s" % (prog, pr, out[0][:2000], (r.get(pr) or "")[:2000]))
        if out[0].startswith("OK"):
            print("layout problems now: %s" % lm.check_layout(out[0]))
    return 0
