"""C17 — asm blocks and user functions mean what their expansion means.
Theorems: coq/Props/C17.v (standalone model of eval_asm.rs abstract over the one-line resolver, user-function calls on
top of Model/Evaluator).  Streams (the property text evaluated on the implementation, harness bin `asmtext`, debug):
  G-macro   structured ISA + program of tools/asm_gen.py extended by tools/c17_gen.py with macro rules `asm { ... }`
            over 2-3 base instructions (textual `{x}` into expression / typed / sub-rule operand positions, `{x}` inside
            a larger inner expression, by-value locals, block-local labels with references, position-dependent base
            rules, nesting depth <= 3) x programs calling them, against the HAND-INLINED program: same bits and same
            global symbols whenever the inlined program has one consistent layout (Spec.Denote.denote /= UNSUPPORTED);
            otherwise success must be certified (equal to the inlined result, or reproduced by the inlined program with
            its global labels pinned to the claimed addresses) or it may fail.  Correspondence: implementation(inlined)
            = extracted resolver model / denote.
  directed  one family per registered defect class (F65 regression, F66, F67, F68, F69) with the same macro = inline check.
  G-fn      `#fn` definitions (arithmetic, slices, concatenations, calls of other functions) x call sites in data,
            constants, instruction arguments and rule productions, against the program with every call replaced by the
            parenthesised body over parenthesised arguments.
  depth     recursion cycles of length 1-3 (error, never a crash), terminating recursion just below / at the limit,
            asm-block nesting just below / at the limit, wrong argument counts."""
import vlib, asm_gen, asm_streams, c17_gen

RULE = ("G-isa x G-prog of asm_gen (byte-sized instructions) + macro rules whose production is an asm block over 2-3 base instructions "
        "or earlier macros (depth <= 3; textual / in-expression / typed / sub-rule / by-value arguments, block labels, `$`) x programs with "
        "1-4 macro calls, budgets 10 and 30, both switches random: implementation(macro program) = implementation(hand-inlined program) on "
        "bits and global symbols when denote(inlined) /= UNSUPPORTED, certified-or-failed otherwise; implementation(inlined) = extracted "
        "model = denote; directed families per defect class; #fn definitions x call sites = substituted expressions; recursion cycles 1-3, "
        "depth limit +-3 for functions and asm nesting; non-trivial = distinct (macro or function) program whose twin assembles")

GOOD = ("OK", "ERR")


def msig(c):
    """what C17 compares: class, bits, symbols other than the labels the inliner introduced"""
    return (c[0], c[1], c17_gen.strip_fresh(c[3]) if c[3] is not None else None)


def known_class(cls):
    for f in vlib.known_findings():
        if f.get("class") == cls and f.get("status") == "known":
            return f["id"]
    return None


def pin_globals(lines_items, values, skip=lambda n: False):
    """text lines of a program with `#addr V` in front of every label whose final address V is claimed"""
    out = []
    for it, line in lines_items:
        if it[0] == 'label' and not skip(it[1]) and it[1] in values:
            out.append('#addr 0x%x' % values[it[1]])
        out.append(line)
    return out


def symvals(symtext):
    d = {}
    for kv in (symtext or '').split(';'):
        if '=' in kv:
            n, v = kv.split('=', 1)
            try:
                d[n] = int(v, 16)
            except ValueError:
                pass
    return d


def certificate_search(R, c, radius=3, max_labels=4):
    """C02's executable certificate (Spec.Certificate.cert_check, extracted) for the macro program's claimed result,
    checked on the IN-PLACE program: the claimed bits and global symbol values, plus values for the labels the inliner
    introduced (the macro program does not report its block labels), searched around the in-place result's values"""
    import itertools
    if c['ci'][0] != "OK":
        # no in-place result to start from (typically: the in-place program oscillates where the block's own loop
        # settles): every address of the claimed output is a candidate for each block label
        blk = [it[1] for it in c['inl'].items if it[0] == 'label' and c17_gen.is_fresh(it[1]) and not it[1].startswith(('ze_', 'zs_'))]
        nb = len(c['cm'][1]) // 8 + 1
        if not blk or nb ** len(blk) > 3000:
            return False
        claimed_vals = symvals(c['cm'][3])
        texts = []
        for combo in itertools.product(range(nb), repeat=len(blk)):
            vals = dict(claimed_vals)
            vals.update(zip(blk, combo))
            lines = pin_globals(list(zip(c['inl'].items, c['inl'].lines())), vals)
            texts.append((c['prog'].isa.text() + '\n'.join(lines) + '\n', 30, c['s'], c['m']))
        for a in R.impl(texts):
            cr = asm_gen.canon_impl(a)
            if cr[0] == "OK" and cr[1] == c['cm'][1] and msig(cr)[2] == msig(c['cm'])[2]:
                return True
        return False
    fm = c['cm_raw'].split('\t')
    claimed = fm[4] if len(fm) > 4 else ''
    base = symvals(c['ci'][3])
    fresh = [n for n in c['inl'].names if c17_gen.is_fresh(n) and n in base]
    deltas = sorted(range(-radius, radius + 1), key=abs)
    # the two layouts may be further apart: also try the shifts the global labels and the total length show
    claimed0 = symvals(c['cm'][3])
    shifts = {claimed0[g] - base[g] for g in claimed0 if g in base} | {(len(c['cm'][1]) - len(c['ci'][1])) // 8}
    deltas = [0] + sorted((d for d in shifts if d != 0), key=abs) + [d for d in deltas if d != 0 and d not in shifts]
    nd = max(2, int(3000 ** (1.0 / max(1, len(fresh)))))          # at most about 3000 candidates
    deltas = deltas[:nd]
    if len(fresh) <= max_labels:
        cases = []
        for combo in itertools.product(deltas, repeat=len(fresh)):
            extra = ''.join('%s=%x:-;' % (n, base[n] + d) for n, d in zip(fresh, combo) if base[n] + d >= 0)
            cases.append((c['inl'], c['b'], c['m'], claimed + extra, c['cm'][1]))
        ans = R.model_run(cases, mode="cert")
        if any(a.startswith("CERT-OK") for a in ans):
            return True
    # the extracted certificate has no notation for boolean constants; fall back to the implementation on the in-place
    # program with EVERY label pinned (globals to the claimed addresses, introduced labels to the candidate ones):
    # it must reproduce exactly the claimed bits and symbols
    claimed_vals = symvals(c['cm'][3])
    texts = []
    # only the block labels matter here.  A block label's shift between the two layouts lies between the shifts of the
    # global labels around it (the start of the program has shift 0, its end the shift of the total length), so the
    # candidates of each block label are that interval, widened by one; widened less if there would be too many
    order = [it[1] for it in c['inl'].items if it[0] == 'label']
    blk = [n for n in order if c17_gen.is_fresh(n) and not n.startswith(('ze_', 'zs_')) and n in base]
    gshift = {g: claimed0[g] - base[g] for g in order if not c17_gen.is_fresh(g) and g in claimed0 and g in base}
    total = (len(c['cm'][1]) - len(c['ci'][1])) // 8
    spans = []
    for n in blk:
        i = order.index(n)
        prev = next((gshift[g] for g in reversed(order[:i]) if g in gshift), 0)
        nxt = next((gshift[g] for g in order[i + 1:] if g in gshift), total)
        spans.append((min(prev, nxt), max(prev, nxt)))
    for widen in (1, 0):
        cands = [list(range(lo - widen, hi + widen + 1)) for (lo, hi) in spans]
        size = 1
        for cl in cands:
            size *= len(cl)
        if size <= 4000:
            break
    else:
        cands = [sorted({lo, hi}) for (lo, hi) in spans]
        size = 1
        for cl in cands:
            size *= len(cl)
        if size > 4000:
            return False
    for combo in itertools.product(*cands):
        vals = dict(claimed_vals)
        for n, d in zip(blk, combo):
            vals[n] = max(0, base[n] + d)
        lines = pin_globals(list(zip(c['inl'].items, c['inl'].lines())), vals)
        texts.append((c['prog'].isa.text() + '\n'.join(lines) + '\n', 30, c['s'], c['m']))
    for a in R.impl(texts):
        cr = asm_gen.canon_impl(a)
        if cr[0] == "OK" and cr[1] == c['cm'][1] and msig(cr)[2] == msig(c['cm'])[2]:
            return True
    return False


def rerun_budget(c):
    """the larger budget for second looks at a macro program (macro programs that stay rejected cost about
    (budget+1)^depth inner rounds in the debug build)"""
    return {1: 30, 2: 16}.get(c['depth'], 9)


def macro_stream(chk, R, rng, n, size_static, tag):
    # candidates are pre-selected on the IN-PLACE program's outcome (all that assemble, one in five of the rejected ones):
    # rejected macro programs of depth 2-3 cost (budget+1)^depth inner rounds in the debug build
    cand = []
    for i in range(3 * n):
        prog, inl, feats, depth = c17_gen.gen_macro_case(rng, size_static=size_static)
        b = 10 if rng.chance(0.6) else 30
        if depth >= 2:
            b = 10 if depth == 2 else 6      # a rejected program costs about (budget+1)^depth inner rounds in the debug build
        s, m = rng.chance(0.5), rng.chance(0.5)
        mt = prog.text()
        it = prog.isa.text() + '\n'.join(inl.lines()) + '\n'
        cand.append(dict(prog=prog, inl=inl, feats=feats, depth=depth, b=b, s=s, m=m, mt=mt, it=it, keep=rng.chance(0.2)))
    ib_all = R.impl([(c['it'], c['b'], c['s'], c['m']) for c in cand])
    cases, ib = [], []
    for c, a in zip(cand, ib_all):
        if len(cases) < n and (a.startswith("OK") or c['keep']):
            cases.append(c); ib.append(a)
    ia = R.impl([(c['mt'], c['b'], c['s'], c['m']) for c in cases])
    da = R.model_run([(c['inl'], c['b'], c['m']) for c in cases], mode="denote")
    ma = R.model_run([(c['inl'], c['b'], c['m']) for c in cases])
    dist = {"both_ok": 0, "both_rejected": 0, "static": 0, "nonstatic": 0, "needs_more_passes_than_inlined": 0,
            "nonstatic_other_solution_certified": 0, "nonstatic_macro_failed": 0, "depth2": 0, "depth3": 0}
    fdist = {}
    second = []     # (case, kind, text)
    ndis = 0
    for c, a, b_, d, mo in zip(cases, ia, ib, da, ma):
        cm_, ci, cd, cmod = asm_gen.canon_impl(a), asm_gen.canon_impl(b_), asm_gen.canon_model(d), asm_gen.canon_model(mo)
        c['cm'], c['ci'], c['cm_raw'] = cm_, ci, a
        rep = {"kind": "macro", "program": c['mt'], "inlined": c['it'], "budget": c['b'], "static_opt": c['s'], "matcher_opt": c['m'],
               "impl_macro": a[:1500], "impl_inlined": b_[:1500], "denote_inlined": d[:600]}
        c['rep'] = rep
        if cm_[0] not in GOOD or ci[0] not in GOOD:
            chk.violation("implementation crashed or was inconsistent (macro: %s, inlined: %s)" % (cm_[0], ci[0]), rep)
            continue
        for f in c['feats']:
            fdist["feat_" + f] = fdist.get("feat_" + f, 0) + 1
        if c['depth'] >= 2:
            dist["depth%d" % min(c['depth'], 3)] += 1
        static = cd[0] != "UNSUPPORTED"
        dist["static" if static else "nonstatic"] += 1
        if ci[0] == "OK":
            chk.nontriv(c['mt'])
        # correspondence on the inlined program
        if static and asm_streams.sig(ci) != asm_streams.sig(cd):
            chk.violation("implementation(inlined program) differs from the language definition: impl %s, definition %s" % (
                str(asm_streams.sig(ci))[:200], str(asm_streams.sig(cd))[:200]), dict(rep, theorems=["C01_denote_certified"]), found=False)
            ndis += 1
            continue
        if asm_streams.sig(ci) != asm_streams.sig(cmod):
            chk.violation("model/implementation correspondence broken on the inlined program: impl %s model %s" % (str(ci)[:160], str(cmod)[:160]),
                          dict(rep, model=mo[:600]), found=False)
            ndis += 1
            continue
        # the property
        if msig(cm_) == msig(ci):
            dist["both_ok" if ci[0] == "OK" else "both_rejected"] += 1
            continue
        if static:
            if cm_[0] == "ERR" and ci[0] == "OK":
                second.append((c, "rerun30", c['mt']))
                continue
            chk.violation("macro program and hand-inlined program are assembled differently (one consistent layout): macro %s, inlined %s" % (
                str(msig(cm_))[:200], str(msig(ci))[:200]), rep)
        else:
            if cm_[0] == "ERR":
                dist["nonstatic_macro_failed"] += 1
                continue
            second.append((c, "pinned", None))
    # second round: budget re-runs, layout hints, pinned certificates
    if second:
        texts = []
        for (c, kind, t) in second:
            if kind == "rerun30":
                texts.append((c['mt'], rerun_budget(c), c['s'], c['m']))
            else:
                vals = symvals(c['cm'][3])
                lines = pin_globals(list(zip(c['inl'].items, c['inl'].lines())), vals, c17_gen.is_fresh)
                c['pinned'] = c['prog'].isa.text() + '\n'.join(lines) + '\n'
                texts.append((c['pinned'], 30, c['s'], c['m']))
        ra = R.impl(texts)
        third = []
        for (c, kind, _), a in zip(second, ra):
            cr = asm_gen.canon_impl(a)
            if kind == "rerun30":
                if c['b'] < rerun_budget(c) and msig(cr) == msig(c['ci']):
                    dist["needs_more_passes_than_inlined"] += 1
                else:
                    third.append(c)
            else:
                if cr[0] == "OK" and cr[1] == c['cm'][1] and msig(cr)[2] == msig(c['cm'])[2]:
                    dist["nonstatic_other_solution_certified"] += 1
                elif certificate_search(R, c):
                    dist["nonstatic_other_solution_certified"] += 1
                else:
                    chk.violation("macro program of a layout-dependent instruction set succeeded with a result that the in-place program does not reproduce "
                                  "when its global labels are pinned to the claimed addresses", dict(c['rep'], pinned=c['pinned'], impl_pinned=a[:1500]), found=False)
        if third:
            # does the macro program mean the right thing once the layout is given? (labels pinned to the inlined result)
            texts = []
            for c in third:
                vals = symvals(c['ci'][3])
                ends = {i: notes['end'] for (i, notes) in c['inl'].notes}
                lines = []
                for idx, (it_, line) in enumerate(zip(c['prog'].items, c['prog'].lines())):
                    if it_[0] == 'label' and it_[1] in vals:
                        lines.append('#addr 0x%x' % vals[it_[1]])
                    lines.append(line)
                    if idx in ends and ends[idx] in vals:
                        lines.append('#addr 0x%x' % vals[ends[idx]])      # the text after a macro call starts where it does in place
                c['hinted'] = c['prog'].isa.text() + '\n'.join(lines) + '\n'
                texts.append((c['hinted'], rerun_budget(c), c['s'], c['m']))
            ha = R.impl(texts)
            for c, a in zip(third, ha):
                ch = asm_gen.canon_impl(a)
                fid = known_class("asm_block_no_size_guess")
                if ch[0] == "OK" and msig(ch) == msig(c['ci']) and fid:
                    chk.known(fid, "a macro program fails to converge where the hand-inlined program converges (right bits once the labels are pinned)")
                    dist["known_" + fid] = dist.get("known_" + fid, 0) + 1
                else:
                    chk.violation("macro program fails although the hand-inlined program has one consistent layout and assembles", dict(c['rep'], hinted=c['hinted'], impl_hinted=a[:1500]))
    dist.update(fdist)
    chk.count(tag, len(cases), **dist)
    for c in cases[:: max(1, len(cases) // 2)][:2]:
        chk.sample({"macro_program": c['mt'], "inlined": '\n'.join(c['inl'].lines()), "impl_macro": str(msig(c['cm']))[:200]})
    return len(cases) * 2 + len(second), ndis


# ------------------------------------------------------------------------------------------------ directed families
def directed_cases(rng, n):
    out = []
    for i in range(n):
        k1, k2 = rng.below(200), rng.below(200)
        pre = '\n'.join(['nop'] * rng.range(0, 3))
        post = '\n'.join(['nop'] * rng.range(0, 3))
        base = "    jmp {addr: u8} => 0xee @ addr\n    nop => 0x00\n    nib {x: u4} => x\n    emit {x: u8} => x\n    ld {x: u16} => 0x0b @ x\n"
        lbl = rng.choice(['l', 'label', 'lp', 'skip'])
        # F65 (fixed): a block body naming a forward global / a transiently failing operand
        out.append(("asm_block_strict_confirming_round", None,
                    "#ruledef\n{\n%s    m => asm {\n        %s\n        jmp fwd + %d\n    }\n}\n%s\nm\n%s\nfwd:\n" % (base, 'nop' if k1 & 1 else 'jmp 1', k2 % 3, pre, post),
                    "#ruledef\n{\n%s}\n%s\n%s\njmp fwd + %d\n%s\nfwd:\n" % (base, pre, 'nop' if k1 & 1 else 'jmp 1', k2 % 3, post)))
        out.append(("asm_block_strict_confirming_round", None,
                    "#ruledef\n{\n%s    m {p} => asm {\n        nop\n        ld {p} * 1\n    }\n}\n%s\nm kk - l0\nl0:\n%s\nkk = $\n" % (base, pre, post + '\nnop'),
                    "#ruledef\n{\n%s}\n%s\nnop\nld kk - l0 * 1\nl0:\n%s\nkk = $\n" % (base, pre, post + '\nnop')))
        # an argument that is a NESTED label of the calling scope (`.loop`, `start.loop`) or a global, substituted as text
        # into the block: it means what it means at the call site (the block runs in the scope of the calling instruction)
        g1, g2 = rng.choice(['start', 'main', 'entry']), rng.choice(['table', 'tail'])
        loc = rng.choice(['loop', 'again', 'l1'])
        arg = rng.choice(['.' + loc, g1 + '.' + loc, g1, '.' + loc + ' + 1', g2 + '.' + loc])
        body_m = "%s:\n%s\n.%s:\nnop\ndjnz %s\n%s\n%s:\n.%s:\nnop\ndjnz .%s\n" % (g1, pre, loc, arg if not arg.startswith(g2) else '.' + loc, post, g2, loc, arg.split('.')[-1] if arg.startswith(g2) else loc)
        body_i = body_m
        import re as _re
        body_i = _re.sub(r"^djnz (.*)$", lambda m_: "nop\njmp " + m_.group(1), body_m, flags=_re.M)
        out.append(("asm_argument_nested_label", None,
                    "#ruledef\n{\n%s    djnz {target} => asm {\n        nop\n        jmp {target}\n    }\n}\n%s" % (base, body_m),
                    "#ruledef\n{\n%s}\n%s" % (base, body_i)))
        # F66: argument text naming something local to the calling block, handed on to a nested macro
        glob = ('%s:\n' % lbl) if rng.chance(0.5) else ''
        out.append(("asm_nested_argument_scope", "F66",
                    "#ruledef\n{\n%s    inner {x} => asm { jmp {x} }\n    outer => asm {\n        nop\n        %s:\n        inner %s\n    }\n}\n%s%s\nouter\n" % (base, lbl, lbl, glob, pre + '\nnop'),
                    "#ruledef\n{\n%s}\n%s%s\nnop\n%s_u1:\njmp %s_u1\n" % (base, glob, pre + '\nnop', lbl, lbl)))
        out.append(("asm_nested_argument_scope", "F66",
                    "#ruledef\n{\n%s    inner {x} => asm { emit {x} }\n    outer {x} => {\n        t = x + %d\n        asm { inner {t} }\n    }\n}\n%s\nouter %d\n" % (base, k1 % 7, pre, k2 % 100),
                    "#ruledef\n{\n%s}\n%s\nemit ((%d) + %d)\n" % (base, pre, k2 % 100, k1 % 7)))
        # F67: a block label captures a same-named global in the argument text
        out.append(("asm_label_captures_argument", "F67",
                    "#ruledef\n{\n%s    loop {x} => asm {\n        jmp 0x11\n        %s:\n        jmp {x}\n        nop\n    }\n}\n%s\n%s:\nnop\nloop %s\n" % (base, lbl, pre + '\nnop', lbl, lbl),
                    "#ruledef\n{\n%s}\n%s\n%s:\nnop\njmp 0x11\n%s_u1:\njmp %s\nnop\n" % (base, pre + '\nnop', lbl, lbl, lbl)))
        # F68: a block label off an address boundary
        out.append(("asm_block_label_unaligned", "F68",
                    "#ruledef\n{\n%s    m => asm {\n        nib %d\n        here:\n        jmp here\n        nib 2\n    }\n}\n%s\nm\n" % (base, k1 % 16, pre),
                    "#ruledef\n{\n%s}\n%s\nnib %d\nhere_u1:\njmp here_u1\nnib 2\n" % (base, pre, k1 % 16)))
        # F69: no size guess from a block while an inner line fails transiently
        out.append(("asm_block_no_size_guess", "F69",
                    "#ruledef\n{\n%s    zm0 {p0} => asm {\n        jmp 0x7d\n        lp:\n        emit {p0}\n    }\n}\nzm0 $ * l0 - %d\n%s\nl0:\n" % (base, 5 + k1 % 3, ''),
                    "#ruledef\n{\n%s}\nzs_u1:\njmp 0x7d\nlp_u2:\nemit $ * l0 - %d\n%s\nl0:\n" % (base, 5 + k1 % 3, '')))
    return out


def directed_stream(chk, R, rng, n):
    cases = directed_cases(rng, n)
    b = [10 if rng.chance(0.5) else 30 for _ in cases]
    sw = [(rng.chance(0.5), rng.chance(0.5)) for _ in cases]
    ia = R.impl([(c[2], bb, s, m) for c, bb, (s, m) in zip(cases, b, sw)])
    ib = R.impl([(c[3], bb, s, m) for c, bb, (s, m) in zip(cases, b, sw)])
    dist = {}
    for (cls, fid, mt, it), x, y, bb, (s, m) in zip(cases, ia, ib, b, sw):
        cx, cy = asm_gen.canon_impl(x), asm_gen.canon_impl(y)
        rep = {"kind": "macro", "class": cls, "program": mt, "inlined": it, "budget": bb, "static_opt": s, "matcher_opt": m, "impl_macro": x[:600], "impl_inlined": y[:600]}
        if cx[0] not in GOOD or cy[0] not in GOOD:
            chk.violation("implementation crashed or was inconsistent on a directed %s case" % cls, rep)
            continue
        chk.nontriv(mt)
        if msig(cx) == msig(cy):
            dist[cls + "_agrees"] = dist.get(cls + "_agrees", 0) + 1
            continue
        kid = known_class(cls)
        if kid:
            chk.known(kid, "%s: macro %s, in place %s" % (cls, str(msig(cx))[:80], str(msig(cy))[:80]))
            dist[cls + "_known_" + kid] = dist.get(cls + "_known_" + kid, 0) + 1
        else:
            chk.violation("macro program and hand-inlined program differ (class %s): macro %s, inlined %s" % (cls, str(msig(cx))[:160], str(msig(cy))[:160]), rep)
    chk.count("directed_classes", len(cases), **dist)
    return 2 * len(cases)


# ------------------------------------------------------------------------------------------------ functions
SWITCHES = [(True, True), (True, False), (False, True), (False, False)]


def fn_stream(chk, R, rng, n):
    """every program with calls is assembled under all four switch settings; the substituted twin under both settings
    of the static-value optimisation; all six answers must agree (switches never change a result, a call means its
    substituted body).  The twin is also checked against the extracted model / denote when it has no macro item."""
    cases = []
    for i in range(n):
        tc, te, pe, feats = c17_gen.gen_fn_case(rng)
        cases.append(dict(tc=tc, te=te, pe=pe, feats=feats, b=10 if rng.chance(0.5) else 30, m=rng.chance(0.5)))
    ia = {sw: R.impl([(c['tc'], c['b'], sw[0], sw[1]) for c in cases]) for sw in SWITCHES}
    ib = {s: R.impl([(c['te'], c['b'], s, c['m']) for c in cases]) for s in (True, False)}
    modelable = [c for c in cases if 'macro-item' not in c['feats']]
    da = dict(zip([id(c) for c in modelable], R.model_run([(c['pe'], c['b'], c['m']) for c in modelable], mode="denote")))
    ma = dict(zip([id(c) for c in modelable], R.model_run([(c['pe'], c['b'], c['m']) for c in modelable])))
    dist = {"both_ok": 0, "both_rejected": 0, "static": 0, "layout_dependent_differs": 0}
    ndis = 0
    for i, c in enumerate(cases):
        ans_c = {sw: ia[sw][i] for sw in SWITCHES}
        ans_e = {s: ib[s][i] for s in (True, False)}
        can_c = {sw: asm_gen.canon_impl(a) for sw, a in ans_c.items()}
        can_e = {s: asm_gen.canon_impl(a) for s, a in ans_e.items()}
        rep = {"kind": "fn", "program": c['tc'], "substituted": c['te'], "budget": c['b'], "matcher_opt": c['m'],
               "impl_calls": {"static=%d,matcher=%d" % (int(sw[0]), int(sw[1])): a[:700] for sw, a in ans_c.items()},
               "impl_substituted": {"static=%d,matcher=%d" % (int(s), int(c['m'])): a[:700] for s, a in ans_e.items()}}
        if any(x[0] not in GOOD for x in list(can_c.values()) + list(can_e.values())):
            chk.violation("implementation crashed or was inconsistent on a function program", rep)
            continue
        for f in c['feats']:
            dist["feat_" + f] = dist.get("feat_" + f, 0) + 1
        cb = can_e[True]
        if cb[0] == "OK":
            chk.nontriv(c['tc'])
        # the switches never change a result (both programs)
        sigs_c = {sw: asm_streams.sig(x) for sw, x in can_c.items()}
        if len(set(sigs_c.values())) > 1:
            chk.violation("a program with function calls is assembled differently under different optimisation switches: %s" % (
                "; ".join("%s -> %s" % (k, str(v)[:90]) for k, v in sigs_c.items())), rep)
            continue
        if asm_streams.sig(can_e[True]) != asm_streams.sig(can_e[False]):
            chk.violation("the substituted program is assembled differently with and without the static-value optimisation", rep)
            continue
        static = False
        if id(c) in da:
            cd, cmod = asm_gen.canon_model(da[id(c)]), asm_gen.canon_model(ma[id(c)])
            if cd[0] != "UNSUPPORTED":
                static = True
                dist["static"] += 1
                if asm_streams.sig(cb) != asm_streams.sig(cd):
                    chk.violation("implementation(substituted program) differs from the language definition", dict(rep, denote=da[id(c)][:600]), found=False)
                    ndis += 1
                    continue
            if asm_streams.sig(cb) != asm_streams.sig(cmod):
                chk.violation("model/implementation correspondence broken on the substituted program: impl %s model %s" % (str(cb)[:160], str(cmod)[:160]),
                              dict(rep, model=ma[id(c)][:600]), found=False)
                ndis += 1
                continue
        ca = can_c[(True, c['m'])]
        if asm_streams.sig(ca) != asm_streams.sig(cb):
            if not static and ('cascading-isa' in c['feats'] or 'macro-item' in c['feats']) and (ca[0] == "ERR" or cb[0] == "ERR"):
                # several consistent layouts / convergence may legitimately differ between the two texts
                dist["layout_dependent_differs"] += 1
                continue
            chk.violation("a program with function calls is assembled differently from the program with the calls substituted: calls %s, substituted %s" % (
                str(asm_streams.sig(ca))[:200], str(asm_streams.sig(cb))[:200]), rep)
            continue
        dist["both_ok" if cb[0] == "OK" else "both_rejected"] += 1
    chk.count("functions", len(cases), **dist)
    chk.sample({"function_program": cases[0]['tc'], "substituted": cases[0]['te']})
    return 6 * len(cases), ndis


def depth_stream(chk, R, rng, quick):
    limit = c17_gen.depth_limit()
    cases = []   # (text, expected bits or None for error, what)
    for length in (1, 2, 3):
        for site in ('data', 'const', 'rule'):
            for _ in range(2 if quick else 10):
                cases.append((c17_gen.fn_cycle(rng, length, site), None, "recursion cycle of length %d in a %s" % (length, site)))
    for cycle in (1, 2, 3):
        for site in ('data', 'const', 'rule'):
            for n in range(limit - 4, limit + 3):
                cases.append((c17_gen.fn_countdown(cycle, n, site), c17_gen.fn_countdown_expected(limit, n, site),
                              "terminating recursion %d levels deep through a cycle of %d functions in a %s (limit %d)" % (n, cycle, site, limit)))
    for k in range(1, (limit + 1) // 2 + 4):
        cases.append((c17_gen.asm_nest(k), c17_gen.asm_nest_expected(limit, k), "asm blocks nested %d deep (limit %d)" % (k, limit)))
    cases.append((c17_gen.asm_nest(1, selfrec=True), None, "self-recursive asm block"))
    # wrong argument counts
    for (np_, na) in ((0, 1), (1, 0), (1, 2), (2, 1), (2, 3), (3, 2)):
        ps = ', '.join('p%d' % i for i in range(np_))
        cases.append(("#fn zw(%s) => 1%s\n#d8 zw(%s)\n" % (ps, ''.join(' + p%d' % i for i in range(np_)), ', '.join(str(i + 1) for i in range(na))), None,
                      "call with %d arguments of a function of %d parameters" % (na, np_)))
    for np_ in (0, 1, 2, 3):
        ps = ', '.join('p%d' % i for i in range(np_))
        v = 1 + sum(i + 1 for i in range(np_))
        cases.append(("#fn zw(%s) => 1%s\n#d8 zw(%s)\n" % (ps, ''.join(' + p%d' % i for i in range(np_)), ', '.join(str(i + 1) for i in range(np_))), format(v, '08b'),
                      "call with the right number (%d) of arguments" % np_))
    runs = []
    for (t, want, what) in cases:
        for b in (10, 30):
            runs.append((t, b, rng.chance(0.5), rng.chance(0.5), want, what))
    ia = R.impl([(t, b, s, m) for (t, b, s, m, _, _) in runs])
    dist = {"expected_error": 0, "expected_value": 0}
    for (t, b, s, m, want, what), a in zip(runs, ia):
        ca = asm_gen.canon_impl(a)
        rep = {"kind": "depth", "program": t, "budget": b, "static_opt": s, "matcher_opt": m, "impl": a[:600], "expected_bits": want, "what": what}
        chk.nontriv(t)
        if ca[0] not in GOOD:
            chk.violation("implementation crashed or was inconsistent: " + what, rep)
        elif want is None:
            dist["expected_error"] += 1
            if ca[0] != "ERR":
                chk.violation("no error: " + what, rep)
        else:
            dist["expected_value"] += 1
            if ca[0] != "OK" or ca[1] != want:
                chk.violation("wrong result (expected bits %s): %s" % (want, what), rep)
    chk.count("depth_and_arity", len(runs), **dist)
    return len(runs)


def bank_stream(chk, R, rng, n):
    """the inline-equivalence family inside #bankdef layouts: header bank, code bank with a non-zero #outp (address base,
    8/16-bit addresses, #fill), optional third bank; macro calls and position-dependent block contents in the banks behind
    the header; same oracle: implementation(macro program) = implementation(hand-inlined program) on bits and symbols
    (size-static instruction sets; the extracted model has no banks, so there is no model run here)."""
    cand = []
    for i in range(2 * n):
        bankdefs, header, banks, meta = c17_gen.gen_bank_layout(rng)
        prog, inl, feats, depth = c17_gen.gen_macro_case(rng, size_static=True, keep_addr=False, unit=meta['unit'])
        split = rng.range(0, len(prog.items))
        b = 10 if rng.chance(0.6) else 30
        if depth >= 2:
            b = 10 if depth == 2 else 6      # a rejected program costs about (budget+1)^depth inner rounds in the debug build
        s, m = rng.chance(0.5), rng.chance(0.5)
        mt = c17_gen.banked_text(prog.isa.text(), bankdefs, header, banks, prog.lines(), list(range(len(prog.items))), split)
        it = c17_gen.banked_text(prog.isa.text(), bankdefs, header, banks, inl.lines(), inl.src_index, split)
        cand.append(dict(prog=prog, inl=inl, feats=feats, depth=depth, b=b, s=s, m=m, mt=mt, it=it, meta=meta, banks=banks,
                         layout=(bankdefs, header, banks, split), keep=rng.chance(0.15)))
    ib_all = R.impl([(c['it'], c['b'], c['s'], c['m']) for c in cand])
    cases, ib = [], []
    for c, a in zip(cand, ib_all):
        if len(cases) < n and (a.startswith("OK") or c['keep']):
            cases.append(c); ib.append(a)
    ia = R.impl([(c['mt'], c['b'], c['s'], c['m']) for c in cases])
    dist = {"both_ok": 0, "both_rejected": 0, "bits16": 0, "filled": 0, "three_banks": 0, "position_dependent_block": 0}
    retry = []
    for c, a, b_ in zip(cases, ia, ib):
        cm_, ci = asm_gen.canon_impl(a), asm_gen.canon_impl(b_)
        c['cm'], c['ci'] = cm_, ci
        rep = {"kind": "macro", "layout": "banks", "program": c['mt'], "inlined": c['it'], "budget": c['b'], "static_opt": c['s'], "matcher_opt": c['m'],
               "impl_macro": a[:1500], "impl_inlined": b_[:1500]}
        c['rep'] = rep
        if cm_[0] not in GOOD or ci[0] not in GOOD:
            chk.violation("implementation crashed or was inconsistent on a banked macro program (macro: %s, inlined: %s)" % (cm_[0], ci[0]), rep)
            continue
        dist["bits16"] += c['meta']['unit'] == 16
        dist["filled"] += bool(c['meta']['fill'])
        dist["three_banks"] += len(c['banks']) > 1
        dist["position_dependent_block"] += bool(c['feats'] & {'local-label', 'pc-in-body', 'opnd-local-label'})
        if ci[0] == "OK":
            chk.nontriv(c['mt'])
        if msig(cm_) == msig(ci):
            dist["both_ok" if ci[0] == "OK" else "both_rejected"] += 1
        elif cm_[0] == "ERR" and ci[0] == "OK":
            retry.append(c)
        else:
            chk.violation("macro program and hand-inlined program are assembled differently inside a bank layout: macro %s, inlined %s" % (
                str(msig(cm_))[:200], str(msig(ci))[:200]), rep)
    if retry:
        # more passes needed than the in-place program / finding F69: the macro program with the layout given
        texts = []
        for c in retry:
            vals = symvals(c['ci'][3])
            ends = {i: notes['end'] for (i, notes) in c['inl'].notes}
            lines = []
            for idx, (it_, line) in enumerate(zip(c['prog'].items, c['prog'].lines())):
                pre = ['#addr 0x%x' % vals[it_[1]]] if it_[0] == 'label' and it_[1] in vals else []
                post = ['#addr 0x%x' % vals[ends[idx]]] if idx in ends and ends[idx] in vals else []
                lines.append('\n'.join(pre + [line] + post))
            bankdefs, header, banks, split = c['layout']
            c['hinted'] = c17_gen.banked_text(c['prog'].isa.text(), bankdefs, header, banks, lines, list(range(len(lines))), split)
            texts.append((c['hinted'], rerun_budget(c), c['s'], c['m']))
        ha = R.impl(texts)
        r30 = R.impl([(c['mt'], rerun_budget(c), c['s'], c['m']) for c in retry])
        for c, a, a30 in zip(retry, ha, r30):
            ch, c30 = asm_gen.canon_impl(a), asm_gen.canon_impl(a30)
            fid = known_class("asm_block_no_size_guess")
            if c['b'] < rerun_budget(c) and msig(c30) == msig(c['ci']):
                dist["needs_more_passes_than_inlined"] = dist.get("needs_more_passes_than_inlined", 0) + 1
            elif ch[0] == "OK" and msig(ch) == msig(c['ci']) and fid:
                chk.known(fid, "a macro program fails to converge where the hand-inlined program converges (right bits once the labels are pinned)")
                dist["known_" + fid] = dist.get("known_" + fid, 0) + 1
            else:
                chk.violation("banked macro program fails although the hand-inlined program assembles", dict(c['rep'], hinted=c['hinted'], impl_hinted=a[:1500]))
    chk.count("macro_in_bank_layouts", len(cases), **dist)
    if cases:
        chk.sample({"banked_macro_program": cases[0]['mt']})
    return 2 * len(cases) + 2 * len(retry)


BUDGETS = list(range(1, 17)) + [30]


def is_budget_coupling(R, text, s, m, row, bad):
    """finding class asm_block_budget_coupling (F78), decided, not assumed:
      1. success at the smaller budget and a DIFFERENT success at the larger one (not a failure, not a pass-count excess);
      2. over the whole sweep no result comes back after a different one (each distinct result occupies one run of
         budgets, the sweep ends in agreement at 16 and 30): the result changes at thresholds, it does not alternate;
      3. the cause is there: the program's asm block ALONE (`#addr A` / `blk`, every address A the program can reach)
         fails to settle with the last budget that still gave the old result but settles with the first budget that gave
         the new one, at some address A - i.e. with the smaller budget some pass may get Unknown where the larger budget
         gets the block's value.
    Anything else (in particular an alternation by budget parity, which is what a leaked estimate produces) stays a
    violation."""
    small, large = bad[1], bad[2]
    js, jl = BUDGETS.index(small), BUDGETS.index(large)
    if small == large or row[jl][0] != "OK":
        return False
    sigs = [asm_streams.sig(c) for c in row]
    seen, prev = [], None
    for j in range(js, len(row)):
        if row[j][0] != "OK":
            return False                         # success is never lost again
        if sigs[j] != prev:
            if sigs[j] in seen:
                return False                     # a result came back: alternation
            seen.append(sigs[j]); prev = sigs[j]
    if sigs[-1] != sigs[-2]:
        return False
    # every change point must have its slow address
    cut = text.index("\n}\n") + 3
    rules = text[:cut]
    if "blk => asm" not in rules:
        return False
    nbytes = max(len(c[1]) for c in row if c[0] == "OK") // 8 + 8
    for j in range(js + 1, len(row)):
        if sigs[j] == sigs[j - 1]:
            continue
        before, after = BUDGETS[j - 1], BUDGETS[j]
        alone = [rules + "#addr 0x%x\nblk\n" % a for a in range(nbytes)]
        ra = R.impl([(p_, before, s, m) for p_ in alone])
        rb = R.impl([(p_, after, s, m) for p_ in alone])
        if not any(x.startswith("ERR") and y.startswith("OK") for x, y in zip(ra, rb)):
            return False
    return True


def budget_stream(chk, quick=True, R=None, rng=None):
    """C09 on programs with asm blocks (callable from tools/props/c09.py): every program is assembled with every budget of
    1..16 and 30 under one switch setting; success at N demands the identical bits and symbol values at every larger
    budget, and the reported pass count never exceeds the budget.  A violation names a concrete pair of budgets.
    Programs: the unsettled-block family of c17_gen.gen_budget_case, and G-macro programs over cascading ISAs."""
    R = R or asm_streams.Runner(("debug",))
    rng = rng or chk.rng.fork("c17-budget")
    progs = []
    for i in range(40 if quick else 600):
        progs.append(("unsettled-block", c17_gen.gen_budget_case(rng), rng.chance(0.5), rng.chance(0.5)))
    # slowly settling blocks: the class asm_block_budget_coupling is a genuine defect of the implementation (whether a
    # guessing pass gets a block's value or Unknown depends on the budget); the family runs once the class is registered
    coupling = known_class("asm_block_budget_coupling")
    if coupling:
        progs.append(("slow-block", c17_gen.SLOW_BLOCK_WITNESS, True, True))
        for i in range(40 if quick else 600):
            progs.append(("slow-block", c17_gen.gen_slow_block_case(rng), rng.chance(0.5), rng.chance(0.5)))
    want = 8 if quick else 300
    tries = 0
    while want and tries < 40 * (40 if quick else 400):
        tries += 1
        prog, inl, feats, depth = c17_gen.gen_macro_case(rng, size_static=False)
        if depth <= 2:
            progs.append(("macro-cascading", prog.text(), rng.chance(0.5), rng.chance(0.5)))
            want -= 1
    runs = [(t, b, s, m) for (_, t, s, m) in progs for b in BUDGETS]
    ans = R.impl(runs)
    dist = {"assembles_at_some_budget": 0, "never_assembles": 0, "first_success_above_4": 0}
    k = len(BUDGETS)
    for i, (fam, t, s, m) in enumerate(progs):
        row = [asm_gen.canon_impl(a) for a in ans[i * k:(i + 1) * k]]
        raw = ans[i * k:(i + 1) * k]
        rep = {"kind": "budget", "family": fam, "program": t, "static_opt": s, "matcher_opt": m, "budget": 30,
               "by_budget": {str(b): a[:400] for b, a in zip(BUDGETS, raw)}}
        if any(c[0] not in GOOD for c in row):
            chk.violation("implementation crashed or was inconsistent in a budget sweep (%s)" % fam, rep)
            continue
        first = next((j for j, c in enumerate(row) if c[0] == "OK"), None)
        if first is None:
            dist["never_assembles"] += 1
            continue
        dist["assembles_at_some_budget"] += 1
        chk.nontriv(t)
        if BUDGETS[first] > 4:
            dist["first_success_above_4"] += 1
        bad = None
        for j in range(first, k):
            if row[j][0] == "OK" and row[j][2] is not None and row[j][2] > BUDGETS[j]:
                bad = ("budget %d reports %d passes" % (BUDGETS[j], row[j][2]), BUDGETS[j], BUDGETS[j])
                break
            if asm_streams.sig(row[j]) != asm_streams.sig(row[first]):
                bad = ("assembles with budget %d but %s with the larger budget %d" % (
                    BUDGETS[first], "fails" if row[j][0] != "OK" else "gives different bits or symbols", BUDGETS[j]), BUDGETS[first], BUDGETS[j])
                break
        if bad and fam == "slow-block" and coupling and is_budget_coupling(R, t, s, m, row, bad):
            chk.known(coupling, "slowly settling asm block: assembles with budget %d, different bits with budget %d" % (bad[1], bad[2]))
            dist["known_" + coupling] = dist.get("known_" + coupling, 0) + 1
        elif bad:
            chk.violation("the iteration budget changes WHAT a program with asm blocks assembles to (%s): %s" % (fam, bad[0]),
                          dict(rep, budget_small=bad[1], budget_large=bad[2], impl_small=raw[BUDGETS.index(bad[1])][:1200], impl_large=raw[BUDGETS.index(bad[2])][:1200]))
    chk.count("budget_sweep_asm_blocks", len(runs), programs=len(progs), **dist)
    return len(runs)


def multi_label_stream(chk, quick=True, R=None, rng=None):
    """asm blocks with 2-4 labels and value-dependent rule families on both sides of every label (callable from
    tools/props/c02.py).  Oracle: the in-place meaning evaluated on the implementation's own output
    (c17_gen.MultiLabelCase.consistent decodes the bits: every label of the block is the address where it lies, every
    line is the rule its operand selects, with that operand) for every budget that assembles; the hand-inlined program's
    output is decoded the same way; budget monotonicity over 1..16 and 30 on a part of the cases."""
    R = R or asm_streams.Runner(("debug",))
    rng = rng or chk.rng.fork("c17-multilabel")
    n = 300 if quick else 4000
    nsweep = 60 if quick else 1000
    cases = [c17_gen.MultiLabelCase(rng) for _ in range(n)]
    sw = [(rng.chance(0.5), rng.chance(0.5)) for _ in cases]
    runs, owner = [], []
    for i, c in enumerate(cases):
        for b in (BUDGETS if i < nsweep else [10, 30]):
            runs.append((c.macro_text(), b, sw[i][0], sw[i][1])); owner.append((i, b))
    ans = R.impl(runs)
    twin = R.impl([(c.inplace_text(), 30, s_, m_) for c, (s_, m_) in zip(cases, sw)])
    dist = {"assembles": 0, "rejected": 0, "in_place_assembles": 0, "two_fixed_points": 0, "macro_fails_in_place_assembles": 0}
    per = {}
    for (i, b), a in zip(owner, ans):
        per.setdefault(i, []).append((b, a))
    for i, c in enumerate(cases):
        s_, m_ = sw[i]
        rows = per[i]
        rep = {"kind": "budget", "family": "multi-label-block", "program": c.macro_text(), "inlined": c.inplace_text(), "static_opt": s_, "matcher_opt": m_,
               "budget": 30, "by_budget": {str(b): a[:400] for b, a in rows}}
        can = [(b, asm_gen.canon_impl(a), a) for b, a in rows]
        ct = asm_gen.canon_impl(twin[i])
        if any(x[1][0] not in GOOD for x in can) or ct[0] not in GOOD:
            chk.violation("implementation crashed or was inconsistent on a multi-label asm block", rep)
            continue
        bad = False
        for b, cc, raw in can:
            if cc[0] == "OK":
                ok, why = c.consistent(cc[1])
                if not ok:
                    chk.violation("an asm block with several labels assembles (budget %d) to bits that are not its in-place meaning: %s" % (b, why),
                                  dict(rep, budget=b, budget_small=b, budget_large=b, impl=raw[:600]))
                    bad = True
                    break
        if bad:
            continue
        if ct[0] == "OK":
            dist["in_place_assembles"] += 1
            ok, why = c.consistent(ct[1])
            if not ok:
                chk.violation("the hand-inlined program of a multi-label block assembles to bits that the decoder rejects (%s)" % why, dict(rep, impl_inlined=twin[i][:600]), found=False)
                continue
        last = can[-1][1]
        if last[0] == "OK":
            dist["assembles"] += 1
            chk.nontriv(c.macro_text())
            if ct[0] == "OK" and ct[1] != last[1]:
                dist["two_fixed_points"] += 1
        else:
            dist["rejected"] += 1
            if ct[0] == "OK":
                dist["macro_fails_in_place_assembles"] += 1
        if i < nsweep:
            row = [x[1] for x in can]
            first = next((j for j, x in enumerate(row) if x[0] == "OK"), None)
            if first is not None:
                for j in range(first, len(row)):
                    if asm_streams.sig(row[j]) != asm_streams.sig(row[first]):
                        badp = ("", BUDGETS[first], BUDGETS[j])
                        fid = known_class("asm_block_budget_coupling")
                        if fid and is_budget_coupling(R, c.macro_text(), s_, m_, row, badp):
                            chk.known(fid, "slowly settling asm block: assembles with budget %d, different bits with budget %d" % (badp[1], badp[2]))
                            dist["known_" + fid] = dist.get("known_" + fid, 0) + 1
                        else:
                            chk.violation("the iteration budget changes WHAT a multi-label asm block assembles to: budget %d versus %d" % (badp[1], badp[2]),
                                          dict(rep, budget_small=badp[1], budget_large=badp[2]))
                        break
    chk.count("multi_label_blocks", len(runs) + len(cases), programs=len(cases), **dist)
    chk.sample({"multi_label_block": cases[0].macro_text()})
    return len(runs) + len(cases)


def run(chk):
    chk.rule = RULE
    chk.prove()
    R = asm_streams.Runner(("debug",))
    quick = chk.tier == "quick"
    rng = chk.rng.fork("c17")
    t1, d1 = macro_stream(chk, R, rng.fork("macro"), 800 if quick else 15000, True, "macro_size_static_isa")
    t2, d2 = macro_stream(chk, R, rng.fork("cascade"), 350 if quick else 5000, False, "macro_cascading_isa")
    t3 = directed_stream(chk, R, rng.fork("directed"), 12 if quick else 120)
    t4, d4 = fn_stream(chk, R, rng.fork("fn"), 700 if quick else 12000)
    t5 = depth_stream(chk, R, rng.fork("depth"), quick)
    t5 += budget_stream(chk, quick, R, rng.fork("budget"))
    t5 += bank_stream(chk, R, rng.fork("banks"), 250 if quick else 4000)
    t5 += multi_label_stream(chk, quick, R, rng.fork("multilabel"))
    chk.cov["traces_validated_against_impl"] = t1 + t2 + t3 + t4 + t5
    chk.cov["disagreements_checked"] = d1 + d2 + d4


def replay(chk, rep):
    R = asm_streams.Runner(("debug",))
    r = rep.get("replay", rep)
    b, s, m = r.get("budget", 30), r.get("static_opt", True), r.get("matcher_opt", True)
    texts = [("program", r["program"])]
    for k in ("inlined", "substituted", "pinned", "hinted"):
        if k in r:
            texts.append((k, r[k]))
    out = R.impl([(t, b, s, m) for (_, t) in texts])
    for (k, t), a in zip(texts, out):
        print("%s:\n%s\nimplementation now: %s\n" % (k, t, a[:800]))
    if r.get("kind") == "budget":
        for bb in sorted(set([r.get("budget_small", 4), r.get("budget_large", 30)] + BUDGETS)):
            a = R.impl([(r["program"], bb, s, m)])[0]
            print("budget %d now: %s" % (bb, a[:200]))
    if r.get("kind") == "fn":
        for sw in SWITCHES:
            a = R.impl([(r["program"], b, sw[0], sw[1])])[0]
            print("calls, static=%d matcher=%d now: %s" % (int(sw[0]), int(sw[1]), a[:300]))
    for k in ("impl_macro", "impl_inlined", "impl_calls", "impl_substituted", "impl", "expected_bits"):
        if k in r:
            print("recorded %s: %s" % (k, str(r[k])[:1600]))
    return 0
