"""C12 — listings and symbol tables tell the truth about the output.
Theorems: coq/Props/C12.v.  Streams: generated programs (tools/c12_gen.py: 1-3 banks incl. bit-granular units, banks
without output, banks visited out of output order, #res/#addr/#align, an included file, nested labels, constants with
and without noemit, multi-line and non-ASCII excerpts, labels around the 16-byte Mesen header) x listing parameters
(base in {2,4,8,16,32,64,128}, group in {1,2,3,4,5,7,8,16}).  The real assembler (harness/src/bin/listing.rs) gives
bits, spans, files, symbol table and the text of format_annotated / format_tcgame / format_addrspan / format_default /
format_mesen_mlb (directly and through driver::format_output).  Per text, three comparisons:
  (1) correspondence: implementation text == text of the extracted model (coq/Model/Listing.v, SymFormat.v) fed with
      the implementation's bits / spans / files / symbols (symbol children in a shuffled "hash" order);
  (2) spec: the extracted checker of coq/Spec/ListingSpec.v reads the IMPLEMENTATION's text and compares it with the
      implementation's own spans + bits + files + symbols (a 0 is a concrete failing input);
  (3) an independent Python reading of the annotated, addrspan and symbols texts.
  (5) #if arms: programs whose global and LOCAL labels / constants are declared inside taken #if / #elif / #else arms
      between ordinary globals (several declaration rounds): the (full name, value) pairs of `symbols`, the lines of
      `mesen-mlb` and the label rows of `annotated` == the declarations of the selected world under the scope rule
      (computed in Python) == the symbols of the inlined world assembled by the same implementation.
  (4) addresses: every span's logical address (which all three listings print) == addr_start + (offset - outp) / unit
      of the bank whose output window holds the offset (extracted addresses_ok + Python), incl. non-power-of-two units.
Plus sensitivity controls: damaged texts and the pre-F53 model text must be REJECTED by the extracted checker."""
import vlib
import c12_gen
import asm_gen, asm2_gen
import c15_gen

BASES = [2, 4, 8, 16, 32, 64, 128]
GROUPS = [1, 2, 3, 4, 5, 7, 8, 16]
KBITS = {2: 1, 4: 2, 8: 3, 16: 4, 32: 5, 64: 6, 128: 7}

RULE = ("G-prog (tools/c12_gen.py): programs with 1-3 banks (address units 1,3,4,5,7,8,12,16 bits; banks without "
        "output; banks filled; banks visited out of output order and revisited), #res/#addr/#align gaps, an included "
        "file, nested labels .a/..b, constants plain/#const/#const(noemit) (nested, negative, >64-bit, string, bool), "
        "zero-sized and multi-element data, multi-line and non-ASCII excerpts, a 4-rule instruction set, NES-like "
        "layouts with labels before and after the 16-byte header; x 3 random (base, group) for annotated, 1 for tcgame "
        "(base 2/16), addrspan, symbols, mesen-mlb. Each (program, format) is one evaluation: implementation text == "
        "extracted model text, extracted spec checker accepts the implementation text against the implementation's "
        "own spans/bits/symbols, independent Python reading agrees (annotated, addrspan, symbols). non-trivial = "
        "each program once more for the address oracle (listed address = bank addr + (offset - outp) / unit, banks with "
        "#bits 3,5,6,7,12,24 included); distinct (program, format+parameters) of a program that assembled and has at least one of: several banks, "
        "a bit-granular unit, an included file, a nested symbol, a noemit constant, a span without output position, "
        "spans emitted out of output order, a size that is not a multiple of the digit width")


# ------------------------------------------------------------------ parsing the harness answer
def parse_answer(ans):
    f = ans.split("\t")
    if f[0] != "OK":
        return None
    bits = "" if f[1] == "-" else f[1]
    spans = []
    if f[2] != ".":
        for e in f[2].split(","):
            o, z, a, fh, st, en = e.split(":")
            spans.append({"off": None if o == "-" else int(o), "size": int(z), "addr": int(a, 16), "file": int(fh),
                          "loc": None if st == "-" else (int(st), int(en))})
    files = {}
    for e in f[3].split(","):
        h, n, c = e.split(":")
        files[int(h)] = (bytes.fromhex(n).decode("utf-8"), bytes.fromhex(c))
    syms = []
    if f[4] != ".":
        for e in f[4].split(","):
            i, d, nm, k, v, ne, b = e.split(":")
            syms.append({"index": int(i), "depth": int(d), "full": bytes.fromhex(nm).decode("utf-8"), "kind": k,
                         "value": None if v == "-" else int(v, 16), "noemit": ne == "1", "bank": b, "wire": e})
    banks = []
    for e in f[5].split(","):
        i, a, u, o, z = e.split(":")
        banks.append({"index": int(i), "addr": int(a, 16), "unit": int(u), "outp": None if o == "-" else int(o),
                      "size": None if z == "-" else int(z)})
    return {"bits": bits, "spans": spans, "files": files, "syms": syms, "banks": banks, "spans_wire": f[2],
            "files_wire": f[3], "syms_wire": f[4], "banks_wire": f[5], "outs": f[6:]}


def split_out(o):
    """request field -> (text hex or None when PANIC, driver marker)"""
    if o == "PANIC" or o == "?":
        return None, o
    for i, c in enumerate(o):
        if c in "=!?":
            return o[:i], o[i:]
    return o, ""


# ------------------------------------------------------------------ independent Python reading
def hexz(v):
    return ("-%x" % -v) if v < 0 else "%x" % v


def digit_chr(d):
    return chr(48 + d) if d < 10 else chr(97 + d - 10)


def py_annotated_ok(info, base, group, text):
    """reads every row of the annotated listing and compares it with the spans (sorted stably by offset, items
    without position first), the bits and the source files; returns (ok, why)"""
    k = KBITS[base]
    gb = k * group
    bits = info["bits"]
    rows = sorted(info["spans"], key=lambda s: -1 if s["off"] is None else s["off"])
    if not text.startswith(" "):
        return False, "header"
    nl = text.find("\n\n")
    head = text[:nl]
    hp = head.split("|")
    if len(hp) != 3 or hp[0].strip() != "outp" or hp[1].strip() != "addr" or hp[2] != " data (base %d)" % base:
        return False, "header %r" % head
    rest = text[nl + 2:]
    for s in rows:
        # position
        i = rest.find(" | ")
        if i < 0:
            return False, "row without position column"
        pos = rest[:i].strip()
        rest = rest[i + 3:]
        if s["off"] is None:
            if pos.replace(" ", "") != "--:-":
                return False, "position %r for an item without output position" % pos
        else:
            a, b = pos.split(":")
            a, b = int(a, 16), int(b, 16)
            if b >= gb or a * gb + b != s["off"]:
                return False, "position %r, offset %d" % (pos, s["off"])
        i = rest.find(" | ")
        addr = rest[:i].strip()
        rest = rest[i + 3:]
        if addr != hexz(s["addr"]):
            return False, "address %r, expected %s" % (addr, hexz(s["addr"]))
        # data: the item's bits, zero-padded to whole digits, in groups
        ib = bits[s["off"]:s["off"] + s["size"]] if s["off"] is not None else ""
        ib += "0" * (s["size"] - len(ib))
        ib += "0" * ((k - len(ib) % k) % k)
        ds = [digit_chr(int(ib[j:j + k], 2)) for j in range(0, len(ib), k)]
        want = " ".join("".join(ds[j:j + group]) for j in range(0, len(ds), group))
        if not rest.startswith(want):
            return False, "data %r, expected %r" % (rest[:len(want) + 4], want)
        rest = rest[len(want):]
        j = 0
        while j < len(rest) and rest[j] == " ":
            j += 1
        if j < 1 or not rest[j:].startswith("; "):
            return False, "no ' ; ' after the data"
        rest = rest[j + 2:]
        name, content = info["files"][s["file"]]
        if s["loc"] is None:
            return False, "span without location"
        ex = content[s["loc"][0]:s["loc"][1]].decode("utf-8")
        if not rest.startswith(ex + "\n"):
            return False, "source %r, expected %r" % (rest[:len(ex) + 2], ex)
        rest = rest[len(ex) + 1:]
    if rest != "":
        return False, "text after the last row: %r" % rest[:40]
    return True, ""


def py_linecol(content, idx):
    p = content[:idx].decode("utf-8")
    line = p.count("\n")
    col = len(p) - (p.rfind("\n") + 1)
    return line, col


def py_addrspan_ok(info, text):
    rows = sorted(info["spans"], key=lambda s: -1 if s["off"] is None else s["off"])
    want = ["; physical address : bit offset | logical address | file : line start : column start : line end : column end"]
    for s in rows:
        pos = "-:-" if s["off"] is None else "%x:%x" % (s["off"] // 8, s["off"] % 8)
        name, content = info["files"][s["file"]]
        l1, c1 = py_linecol(content, s["loc"][0])
        l2, c2 = py_linecol(content, s["loc"][1])
        want.append("%s | %s | %s:%d:%d:%d:%d" % (pos, hexz(s["addr"]), name, l1, c1, l2, c2))
    w = "\n".join(want) + "\n"
    return w == text, "expected %r" % w[:300]


def py_symbols(info):
    """(dotted name, value, sym) of the emitted symbols: parents before children, siblings by index"""
    by_parent = {}
    for s in info["syms"]:
        parent = s["full"].rsplit(".", 1)[0] if "." in s["full"] else None
        by_parent.setdefault(parent, []).append(s)
    out = []

    def walk(parent):
        for s in sorted(by_parent.get(parent, []), key=lambda x: x["index"]):
            if not s["noemit"] and s["value"] is not None:
                out.append(s)
            walk(s["full"])
    walk(None)
    return out


def py_symbols_ok(info, text):
    w = "".join("%s = 0x%s\n" % (s["full"], hexz(s["value"])) for s in py_symbols(info))
    return w == text, "expected %r" % w[:300]


def py_mesen_ok(info, text):
    w = ""
    for s in py_symbols(info):
        if s["kind"] == "c" or s["bank"] == "-":
            continue
        start, outp = s["bank"].split("/")
        start = int(start, 16)
        nm = s["full"].replace(".", "_")
        if outp == "-":
            w += "R:%s:%s\n" % (hexz(s["value"]), nm)
        else:
            off = s["value"] - start + int(outp) // 8 - 16
            if off >= 0 and 0 <= start <= s["value"] < 2 ** 64:
                w += "P:%x:%s\n" % (off, nm)
    return w == text, "expected %r" % w[:300]


def py_addresses_ok(info):
    """every span with an output position carries the address its bank assigns to that position:
    addr_start + (offset - outp) // unit (labels and zero-sized items: the end of the window included)"""
    banks = info["banks"] if len(info["banks"]) == 1 else [b for b in info["banks"] if b["index"] != 0]
    for s in info["spans"]:
        if s["off"] is None:
            continue
        cands = []
        for b in banks:
            if b["outp"] is None or s["off"] < b["outp"]:
                continue
            rel = s["off"] - b["outp"]
            if b["size"] is not None:
                end = b["size"]            # Bankdef::size is in bits
                if rel > end or (rel == end and s["size"] > 0):
                    continue
            cands.append(b["addr"] + rel // b["unit"])
        if s["addr"] not in cands or (s["size"] > 0 and len(set(cands)) != 1):
            return False, "the item at output bit %d (size %d) is listed at address 0x%x, its bank assigns %s" % (
                s["off"], s["size"], s["addr"], ", ".join("0x%x" % c for c in cands) or "nothing")
    return True, ""


# ------------------------------------------------------------------ damage (sensitivity controls)
def damage(rng, kind, text, info):
    """a text that differs from the true one in ONE field; returns None when no such edit applies"""
    lines = text.split("\n")
    if kind in ("a", "t"):
        cand = [i for i, ln in enumerate(lines[2:], 2) if ln]
        if not cand:
            return None
        how = rng.choice(["digit", "swap", "drop", "addr"])
        if how == "swap" and kind == "a":
            rows = [i for i in cand]
            if len(rows) < 2:
                return None
            i = rng.choice(rows[:-1])
            if lines[i] == lines[i + 1]:
                return None
            lines[i], lines[i + 1] = lines[i + 1], lines[i]
            return "\n".join(lines)
        if how == "drop" and kind == "a":
            del lines[rng.choice(cand)]
            return "\n".join(lines)
        if how == "addr" and kind == "a":
            i = rng.choice(cand)
            p = lines[i].split(" | ")
            if len(p) < 3 or not p[1].strip() or "-" in p[1]:
                return None
            v = int(p[1].strip(), 16) + 1
            p[1] = ("%x" % v).rjust(len(p[1]))
            lines[i] = " | ".join(p)
            return "\n".join(lines)
        # flip one data digit
        if kind == "a":
            rows = [i for i in cand if " | " in lines[i] and len(lines[i].split(" | ")) >= 3 and lines[i].split(" | ")[2][:1] not in (" ", "")]
            if not rows:
                return None
            i = rng.choice(rows)
            p = lines[i].split(" | ")
            c = p[2][0]
            p[2] = ("1" if c == "0" else "0") + p[2][1:]
            lines[i] = " | ".join(p)
            return "\n".join(lines)
        rows = [i for i in cand if lines[i].startswith("0x") or lines[i].startswith("0b")]
        if not rows:
            return None
        i = rng.choice(rows)
        c = lines[i][2]
        lines[i] = lines[i][:2] + ("1" if c == "0" else "0") + lines[i][3:]
        return "\n".join(lines)
    if kind == "s":
        cand = [i for i, ln in enumerate(lines[1:], 1) if ln]
        if not cand:
            return None
        i = rng.choice(cand)
        p = lines[i].rsplit(":", 1)
        lines[i] = p[0] + ":" + str(int(p[1]) + 1)
        return "\n".join(lines)
    if kind in ("y", "m"):
        cand = [i for i, ln in enumerate(lines) if ln]
        if not cand:
            return text + "ghost = 0x1\n" if kind == "y" else None
        how = rng.choice(["value", "drop", "swap"])
        i = rng.choice(cand)
        if how == "drop":
            del lines[i]
        elif how == "swap":
            if len(cand) < 2 or i + 1 >= len(lines) or not lines[i + 1] or lines[i] == lines[i + 1]:
                return None
            lines[i], lines[i + 1] = lines[i + 1], lines[i]
        else:
            if kind == "y":
                lines[i] = lines[i] + "0"
                if lines[i].endswith("0x00"):
                    lines[i] = lines[i][:-2] + "1"
            else:
                p = lines[i].split(":")
                p[1] = p[1] + "1"
                lines[i] = ":".join(p)
        return "\n".join(lines)
    return None


# ------------------------------------------------------------------ pipeline stream (Resolver2 model)
PIPE_UNITS = [3, 5, 6, 7, 12, 24, 12, 3, 8, 16, 1, 4]


def gen_pipe_prog(rng):
    """a Prog2 (tools/asm2_gen.py) over 1-3 banks with mostly non-power-of-two units, #outp != 0, gaps between the
    windows, #fill, #res, forward and BACKWARD #addr (into a hole left earlier), labels directly before items, a
    trailing item that is not a whole number of units; banks visited in shuffled order and revisited"""
    p = asm2_gen.Prog2(asm_gen.Isa())
    p.kind = "pipe"
    it = p.items
    nb = rng.range(1, 3)
    banks = []
    outp = rng.choice([0, 8, 5, 64, 0])
    for i in range(nb):
        u = rng.choice(PIPE_UNITS)
        a = rng.choice([0, 0x10, 0x100, 0x8000, 7])
        size = rng.choice([0x40, 0x30, 0x80])
        f = {"bits": str(u), "addr": "0x%x" % a, "size": "0x%x" % size, "outp": str(outp)}
        if rng.chance(0.3):
            f["fill"] = True
        if rng.chance(0.15):
            f["labelalign"] = str(u * rng.choice([1, 2]))
        outp += size * u + rng.choice([0, 0, 3, 8, 64])
        banks.append({"name": "pk%d" % i, "u": u, "a": a, "size": size, "next": 0, "hole": None, "closed": False})
        it.append(("bankdef", "pk%d" % i, f))
    visits = rng.shuffle(list(range(nb)))
    if nb > 1 and rng.chance(0.7):
        visits.append(rng.choice(visits))
    nl = 0
    for v in visits:
        b = banks[v]
        if b["closed"]:
            continue
        it.append(("bank", b["name"]))
        u = b["u"]
        for _ in range(rng.range(1, 4)):
            k = rng.weighted([("data", 5), ("label", 4), ("res", 2), ("fwd", 2), ("back", 2), ("odd", 1)])
            room = b["size"] - b["next"]
            if room < 12:
                break
            if k == "label":
                nl += 1
                it.append(("label", "p%d" % nl, 0))
                if rng.chance(0.7):
                    it.append(("data", u * rng.choice([1, 2]), [str(rng.below(1 << u))])); b["next"] += 2
            elif k == "data":
                n = rng.range(1, 3)
                it.append(("data", u, [str(rng.below(1 << u)) for _ in range(n)])); b["next"] += n
            elif k == "res":
                n = rng.range(0, 3)
                it.append(("res", str(n))); b["next"] += n
            elif k == "fwd":
                skip = rng.range(2, 5)
                if b["hole"] is None:
                    b["hole"] = (b["next"], skip)
                b["next"] += skip
                it.append(("addr", "0x%x" % (b["a"] + b["next"])))
            elif k == "back" and b["hole"] is not None:
                h, n = b["hole"]
                b["hole"] = None
                resume = b["next"]
                it.append(("addr", "0x%x" % (b["a"] + h)))
                nl += 1
                it.append(("label", "p%d" % nl, 0))
                it.append(("data", u, [str(rng.below(1 << u)) for _ in range(rng.range(1, n))]))
                it.append(("addr", "0x%x" % (b["a"] + resume)))
            elif k == "odd":
                it.append(("data", u + rng.range(1, max(1, u - 1)) if u > 1 else 1, ["1"]))
                b["next"] += 2
                b["closed"] = True          # the position is no longer a whole number of units: nothing but data may follow
                it.append(("data", 1, ["1"]))
                break
    p.names = ["p%d" % i for i in range(1, nl + 1)]
    return p


def model_spans_banks(ans):
    f = ans.split("\t")
    if f[0] != "OK":
        return f[0], None, None
    cm = asm2_gen.canon_model(ans)
    return "OK", cm[5], tuple((b[0], b[1], b[4], b[3]) for b in cm[4])


# ------------------------------------------------------------------ symbols declared inside #if arms
def gen_if_symbols(rng):
    """items in the format of tools/c15_gen.py (render_cond / select_world): ordinary global labels and constants, some
    of them declared inside the taken arm of an #if / #elif / #else construct (so they are declared a round later),
    each followed by data and by LOCAL labels / constants (`.a`, `..b`) that sit either in the open or in #if arms of
    their own (several per global, also nested), referenced only locally; decoy arms declare other names.
    A local is never placed after an #if block that declared its parent unless it is inside that arm (class F55)."""
    T = lambda: rng.choice(["true", "1 == 1", "q1 == 1"])
    F = lambda: rng.choice(["false", "1 == 2", "q1 == 2"])
    nd = [0]

    def decoy():
        nd[0] += 1
        return rng.choice([[("L", 0, "zz%d" % nd[0])], [("C", rng.below(2), "dd%d" % nd[0], ("l", 99))],
                           [("D", 8, ("l", 238))], [("L", 1, "trace")]])

    def wrap(seg):
        k = rng.below(5)
        if k == 0:
            return [("I", [(T(), True, seg)], None)]
        if k == 1:
            return [("I", [(F(), False, decoy())], seg)]
        if k == 2:
            return [("I", [(F(), False, decoy()), (T(), True, seg)], decoy() if rng.chance(0.5) else None)]
        if k == 3:
            return [("I", [(T(), True, seg)], decoy())]
        return [("I", [(T(), True, [("I", [(T(), True, seg)], None)])], None)]

    def locals_of(depth_names):
        out = []
        for j in range(rng.range(0, 3)):
            nm = rng.choice(["a", "b", "c", "trace", "lp"]) + str(j)
            seg = [("L", 1, nm) if rng.chance(0.6) else ("C", 1, nm, ("l", 64 + rng.below(60)))]
            seg.append(("O",))
            if rng.chance(0.6):
                seg.append(("D", 8, ("r", 1, [nm])))                  # referenced only locally
            if rng.chance(0.3):
                seg.append(("L", 2, "deep%d" % j) if rng.chance(0.5) else ("C", 2, "deep%d" % j, ("l", 7)))
                seg.append(("O",))
            out.append(seg)
        return out

    items = [("C", 0, "q1", ("l", 1))]
    items += [("O",)] * rng.range(14, 18)                              # past the 16-byte header of the Mesen format
    for i in range(rng.range(3, 6)):
        g = [("L", 0, "g%d" % i) if rng.chance(0.75) else ("C", 0, "g%d" % i, ("l", 200 + i)), ("O",)]
        segs = locals_of(None)
        if rng.chance(0.4):
            # the global itself is declared inside an arm; its locals stay inside that arm
            body = list(g)
            for sg in segs:
                body += wrap(sg) if rng.chance(0.4) else sg
            items += wrap(body)
        else:
            items += g
            for sg in segs:
                items += wrap(sg) if rng.chance(0.65) else sg
    return items


def world_symbols(world):
    """(full dotted name, value, is_label) of every declaration of the selected world, by the scope rule: a symbol
    with k dots is a child of the latest symbol with k-1 dots; label value = address (one byte per data item)"""
    out, chain, addr = [], [], 0
    for n, _ in world:
        if n[0] in ("L", "C"):
            k = n[1]
            if k > len(chain):
                return None
            chain = chain[:k] + [n[2]]
            out.append((".".join(chain), addr if n[0] == "L" else n[3][1], n[0] == "L"))
        else:
            addr += 1
    return out


def parse_symbols_text(t):
    return sorted((ln.split(" = 0x")[0], int(ln.split(" = 0x")[1], 16)) for ln in t.split("\n") if ln)


# ------------------------------------------------------------------ the check
def requests_for(rng):
    reqs = []
    for _ in range(3):
        reqs.append(("a", rng.choice(BASES), rng.choice(GROUPS)))
    reqs.append(("t", rng.choice([2, 16]), rng.choice(GROUPS)))
    reqs += [("s", 0, 0), ("y", 0, 0), ("m", 0, 0)]
    return reqs


def req_wire(r):
    return "%s:%d:%d" % r if r[0] in ("a", "t") else r[0]


def impl_line(text, extra, reqs):
    return "L\t%s\t%s\t%s" % (vlib.hx(text), ";".join("%s=%s" % (vlib.hx(k), vlib.hx(v)) for k, v in sorted(extra.items())),
                              " ".join(req_wire(r) for r in reqs))


DIRECTED = [
    # the witness of F53 (fixed in /repo): bit-granular items followed by non-zero bits
    ("#bankdef a { #bits 3, #addr 0, #outp 0, #size 100 }\nstart:\n#d3 0b101\n#d1 1\n#d2 0\n.sub:\n#d12 0xabc\n..deep:\n#d15 32767 ; é\n",
     {}, [("a", 16, 2), ("a", 2, 3), ("a", 64, 2), ("a", 128, 1), ("a", 32, 16), ("t", 16, 2), ("t", 2, 8), ("s", 0, 0), ("y", 0, 0), ("m", 0, 0)]),
    # F22: labels before / at / after the 16-byte header, an R: line, a negative constant, noemit
    ("#bankdef hdr { #bits 8, #addr 0, #size 16, #outp 0 }\n#bankdef prg { #bits 8, #addr 0x8000, #size 0x100, #outp 8*16 }\n"
     "#bankdef ram { #bits 8, #addr 0, #size 0x800 }\n#bank ram\nzp: #res 2\n.tmp: #res 1\n#bank prg\nreset:\n#d8 1, 2, 3\n#align 32\n.loop:\n"
     "#d16 0x1234\n#bank hdr\nh:\n#d \"NES\", 0x1a\nneg = -3\n#const(noemit) hidden = 7\n#bank prg\nnmi:\n#d8 0xff\n",
     {}, [("a", 16, 2), ("a", 8, 5), ("t", 16, 2), ("s", 0, 0), ("y", 0, 0), ("m", 0, 0)]),
    # an empty program, and one with only a label
    ("", {}, [("a", 16, 2), ("t", 2, 8), ("s", 0, 0), ("y", 0, 0), ("m", 0, 0)]),
    ("x:\n", {}, [("a", 16, 2), ("t", 2, 8), ("s", 0, 0), ("y", 0, 0), ("m", 0, 0)]),
    # included file, multi-line excerpt, wide addresses and offsets (column widths grow)
    ("#bankdef b { #bits 8, #addr 0x123456789, #size 0x2000, #outp 0 }\n#include \"inc.asm\"\n#d8 (1 +\n 2)\n#addr 0x123456789 + 0x1100\nfar:\n#d64 0x0123456789abcdef\n"
     "#d100 1\n", {"inc.asm": "; é\nIncL:\n#d8 1\n.incs:\n#d8 2, 3\nIncK = 5\n"},
     [("a", 16, 2), ("a", 16, 1), ("a", 2, 16), ("a", 128, 7), ("t", 16, 4), ("s", 0, 0), ("y", 0, 0), ("m", 0, 0)]),
]


def run(chk):
    chk.rule = RULE
    chk.prove()
    vlib.extraction("ExListing")
    model_exe = vlib.ocaml_build("listing_driver", ["listing_model"])
    model = ["sh", "-c", "ulimit -s unlimited 2>/dev/null || ulimit -s 4000000 2>/dev/null; exec " + model_exe]
    bins = vlib.harness_build(("debug", "release"), bins=["listing"])
    known = {f["class"]: f for f in vlib.known_findings() if f.get("property") == "C12" and f.get("status") == "known"}
    quick = chk.tier == "quick"
    nprog = 2500 if quick else 40000

    progs = [(t, e, ["directed"], r, "directed") for (t, e, r) in DIRECTED]
    rp = chk.rng.fork("prog")
    for i in range(nprog):
        g = rp.fork("p%d" % i)
        t, e, tags = c12_gen.gen_program(g)
        progs.append((t, e, tags, requests_for(g), "programs"))
    # pipeline stream: Prog2 programs (directed bank family + the bank programs of the Resolver2 streams)
    rq = chk.rng.fork("pipe")
    pipe = {}      # index into progs -> Prog2
    for i in range(600 if quick else 6000):
        g = rq.fork("q%d" % i)
        if i % 3 == 2:
            p2 = asm2_gen.gen_prog2(g)
            # (the `edge` family aims at usize overflow in the cursor arithmetic: findings F48 / F61 of C06, not listings)
            while not p2.stats().get("bankdef", 0) or p2.kind == "edge":
                p2 = asm2_gen.gen_prog2(g)
        else:
            p2 = gen_pipe_prog(g)
        pipe[len(progs)] = p2
        progs.append((p2.text(), {}, ["pipeline"], [("a", g.choice(BASES), g.choice(GROUPS)), ("s", 0, 0), ("y", 0, 0)], "pipeline"))
    # #if stream: declarations inside #if arms; each program together with its selected world (taken arms inlined)
    ri = chk.rng.fork("ifsym")
    ifprogs = {}   # index of the conditional program -> (index of the inlined world, world, f55)
    for i in range(500 if quick else 5000):
        g = ri.fork("c%d" % i)
        items = gen_if_symbols(g) if i % 4 != 3 else c15_gen.gen_cond_program(g)
        world = c15_gen.select_world(items)
        reqs = [("y", 0, 0), ("m", 0, 0), ("a", 16, 2)]
        ci_ = len(progs)
        progs.append((c15_gen.render_cond(items), {}, ["if-arms"], reqs, "if_symbols"))
        progs.append((c15_gen.render([n for n, _ in world]), {}, ["if-arms"], reqs, "if_symbols"))
        ifprogs[ci_] = (ci_ + 1, world, c15_gen.f55_exact(world))
    # ---- pre-pass without any format request: "every row is ONE emitted item" read on the recorded spans themselves --
    # the positioned, non-empty spans of an assembled program are pairwise disjoint and lie inside the output (in the
    # model: C12_pipeline_one_item; the overlap checker rejects everything else).  A program that breaks this is
    # reported here and NOT handed to the formatters (rows spanning the rest of the output made them run for minutes).
    pre = vlib.run_lines([bins["debug"] + "/listing"], [impl_line(t, e, []) for (t, e, _, _, _) in progs], timeout=300)
    nbad = 0
    for pi, a in enumerate(pre):
        if a.split("\t", 1)[0] in ("PANIC", "INCONSISTENT", "CRASH", "?"):
            # (reported by the main loop below; its listings are not requested: in a release build the same input may
            # not panic but wrap around, and the formatters then work on nonsense for minutes)
            t, e, tags, reqs, stream = progs[pi]
            progs[pi] = (t, e, tags, [], stream)
            continue
        if not a.startswith("OK\t"):
            continue
        info0 = parse_answer(a)
        nbits = len(info0["bits"])
        pos = sorted((s_["off"], s_["size"]) for s_ in info0["spans"] if s_["off"] is not None and s_["size"] > 0)
        why = None
        for (o1, z1), (o2, z2) in zip(pos, pos[1:]):
            if o1 + z1 > o2:
                why = "the span at bit %d (%d bits) runs into the span at bit %d" % (o1, z1, o2)
                break
        if why is None and pos and pos[-1][0] + pos[-1][1] > nbits:
            why = "the span at bit %d (%d bits) ends after the output (%d bits)" % (pos[-1][0], pos[-1][1], nbits)
        if why:
            nbad += 1
            t, e, tags, reqs, stream = progs[pi]
            if nbad <= 5:
                chk.violation("recorded spans do not describe one emitted item each: " + why,
                              {"kind": "program", "main": t, "files": e, "requests": [], "impl_line": impl_line(t, e, []),
                               "spans": info0["spans_wire"][:3000]})
            progs[pi] = (t, e, tags, [], stream)
    chk.count("span_prepass", len(pre), spans_not_one_item=nbad)
    lines = [impl_line(t, e, r) for (t, e, _, r, _) in progs]
    res = {p: vlib.run_lines([bins[p] + "/listing"], lines) for p in ("debug", "release")}
    vlib.extraction("ExResolver2")
    asm2_exe = vlib.ocaml_build("asm2_driver", ["resolver2_model"])
    pidx = sorted(pipe)
    pres2 = dict(zip(pidx, vlib.run_lines(["sh", "-c", "ulimit -s 1000000 2>/dev/null; exec " + asm2_exe],
                                          [pipe[i].model_line(10, True) for i in pidx])))

    # ---- collect the (program, request) cases
    cases = []     # dict per case
    outcome = {"OK": 0, "ERR": 0}
    tagdist = {}
    for pi, (t, e, tags, reqs, stream) in enumerate(progs):
        d, r = res["debug"][pi], res["release"][pi]
        rep = {"kind": "program", "main": t, "files": e, "requests": [req_wire(x) for x in reqs], "impl_line": lines[pi]}
        if d != r:
            chk.violation("debug and release builds disagree on a generated program", dict(rep, debug=d[:3000], release=r[:3000]))
            continue
        head = d.split("\t", 1)[0]
        if head in ("PANIC", "INCONSISTENT", "CRASH", "?"):
            chk.violation("the assembler crashed / was inconsistent on a generated program (%s)" % head, dict(rep, impl=d[:300]))
            continue
        if head == "ERR":
            outcome["ERR"] += 1
            continue
        outcome["OK"] += 1
        info = parse_answer(d)
        offs = [s["off"] for s in info["spans"] if s["off"] is not None]
        ptags = set(tags)
        if any(s["off"] is None for s in info["spans"]):
            ptags.add("no-position-span")
        if offs != sorted(offs):
            ptags.add("emitted-out-of-order")
        for tg in ptags:
            tagdist["tag_" + tg] = tagdist.get("tag_" + tg, 0) + 1
        for ri, rq in enumerate(reqs):
            cases.append({"pi": pi, "rq": rq, "info": info, "out": info["outs"][ri], "rep": rep, "tags": ptags, "stream": stream})

    # ---- pipeline: spans and banks of the implementation == spans and banks of the extracted Resolver2 model
    npipe = {"ok": 0, "err": 0, "nonpow2": 0, "several_banks": 0, "outp_nonzero": 0, "fill": 0}
    for pi in pidx:
        d = res["debug"][pi]
        if d != res["release"][pi]:
            continue                              # reported above
        mcls, mspans, mbanks = model_spans_banks(pres2[pi])
        head = d.split("\t", 1)[0]
        rep = {"kind": "pipeline", "main": progs[pi][0], "files": {}, "requests": ["a:16:2", "s"], "impl_line": lines[pi],
               "model_line": pipe[pi].model_line(10, True), "model": pres2[pi][:3000]}
        if head not in ("OK", "ERR"):
            continue                              # crash: reported above
        if head == "ERR" or mcls != "OK":
            npipe["err"] += 1
            if (head == "OK") != (mcls == "OK"):
                ndis_pipe = True
                chk.violation("pipeline correspondence: implementation says %s, extracted Resolver2 model says %s" % (head, mcls),
                              dict(rep, theorems=["C12_pipeline_addresses", "C12_pipeline_one_item"]), found=False)
            continue
        info = parse_answer(d)
        npipe["ok"] += 1
        ispans = tuple((s_["off"], s_["size"], s_["addr"]) for s_ in info["spans"])
        ibanks = tuple((b["addr"], b["unit"], b["outp"], b["size"]) for b in info["banks"])
        ub = [b for b in info["banks"] if b["index"] != 0]
        if any(b["unit"] & (b["unit"] - 1) for b in ub):
            npipe["nonpow2"] += 1
        if len(ub) > 1:
            npipe["several_banks"] += 1
        if any(b["outp"] for b in ub):
            npipe["outp_nonzero"] += 1
        if "fill" in progs[pi][0]:
            npipe["fill"] += 1
        chk.nontriv((pi, "pipeline"))
        if ispans != mspans or ibanks != mbanks:
            # which side is wrong?  the address specification decides it for the implementation's spans (stream below)
            chk.violation("pipeline correspondence: the spans / banks of the implementation differ from those of the extracted "
                          "Resolver2 model (theorems C12_pipeline_* speak about the model's): impl %s | model %s" % (
                              str(ispans)[:200], str(mspans)[:200]),
                          dict(rep, impl_spans=info["spans_wire"][:3000], impl_banks=info["banks_wire"],
                               theorems=["C12_pipeline_addresses", "C12_pipeline_one_item"]), found=False)
    chk.count("pipeline_spans", len(pidx), **npipe)

    # ---- #if stream: the symbol files and the label rows name the declarations of the SELECTED WORLD
    f55 = [f for f in vlib.known_findings() if f.get("class") == "nested_symbol_across_if" and f.get("status") == "known"]
    nif = {"ok": 0, "rejected": 0, "several_rounds": 0, "local_in_arm": 0, "class_F55": 0}
    for ci_, (wi_, world, in_f55) in sorted(ifprogs.items()):
        d, dw = res["debug"][ci_], res["debug"][wi_]
        if d != res["release"][ci_] or dw != res["release"][wi_]:
            continue
        exp = world_symbols(world)
        if not d.startswith("OK") or not dw.startswith("OK") or exp is None:
            nif["rejected"] += 1
            continue
        info, winfo = parse_answer(d), parse_answer(dw)
        texts = [bytes.fromhex(split_out(o)[0] or "").decode("utf-8") if split_out(o)[0] not in (None, "-") else "" for o in info["outs"]]
        wtexts = [bytes.fromhex(split_out(o)[0] or "").decode("utf-8") if split_out(o)[0] not in (None, "-") else "" for o in winfo["outs"]]
        nif["ok"] += 1
        if progs[ci_][0].count("#if") > 1:
            nif["several_rounds"] += 1
        if any(len(pth) > 0 and n[0] in ("L", "C") and n[1] > 0 for n, pth in world):
            nif["local_in_arm"] += 1
        chk.nontriv((ci_, "if-symbols"))
        want = sorted((nm, v) for nm, v, _ in exp)
        got = parse_symbols_text(texts[0])
        wgot = parse_symbols_text(wtexts[0])
        want_m = sorted("P:%x:%s" % (v - 16, nm.replace(".", "_")) for nm, v, lab in exp if lab and v >= 16)
        got_m = sorted(ln for ln in texts[1].split("\n") if ln)
        # label rows of the annotated listing: (name as written, address)
        rows = sorted((info["files"][s_["file"]][1][s_["loc"][0]:s_["loc"][1]].decode("utf-8").strip(".:"), s_["addr"])
                      for s_ in info["spans"] if s_["size"] == 0 and s_["loc"] and
                      info["files"][s_["file"]][1][s_["loc"][0]:s_["loc"][1]].endswith(b":"))
        want_rows = sorted((nm.split(".")[-1], v) for nm, v, lab in exp if lab)
        bad = None
        if got != want:
            bad = "symbols lists %s, the selected world declares %s" % (
                [x for x in got if x not in want][:4], [x for x in want if x not in got][:4])
        elif got != wgot:
            bad = "symbols differs from the symbols of the inlined world: %s vs %s" % (got[:6], wgot[:6])
        elif got_m != want_m:
            bad = "mesen-mlb lists %s, expected %s" % ([x for x in got_m if x not in want_m][:4], [x for x in want_m if x not in got_m][:4])
        elif rows != want_rows:
            bad = "annotated label rows %s, expected %s" % (rows[:6], want_rows[:6])
        if bad:
            if in_f55 and f55:
                nif["class_F55"] += 1
                chk.known(f55[0]["id"], "class=nested_symbol_across_if: a nested symbol after an #if block that declares its parent (%s)" % bad[:160])
            else:
                chk.violation("declarations inside #if arms: the symbol table / listing does not name the declared symbols: " + bad,
                              dict(kind="if-symbols", main=progs[ci_][0], files={}, requests=["y", "m", "a:16:2"], impl_line=lines[ci_],
                                   selected_world=progs[wi_][0], symbols_text=texts[0][:2000], mesen_text=texts[1][:2000],
                                   expected=[list(x) for x in want][:60]))
        elif in_f55:
            nif["class_F55"] += 1
    chk.count("if_symbols_oracle", len(ifprogs), **nif)

    # ---- the addresses the spans carry (and every listing therefore prints) against the bank layout
    okprogs = sorted(set(c["pi"] for c in cases))
    first = {}
    for c in cases:
        first.setdefault(c["pi"], c)
    alines = ["A %s %s" % (first[pi]["info"]["banks_wire"], first[pi]["info"]["spans_wire"]) for pi in okprogs]
    ares = vlib.run_lines(model, alines)
    nonpow2 = 0
    for pi, ans in zip(okprogs, ares):
        c = first[pi]
        info = c["info"]
        units = set(b["unit"] for b in info["banks"] if len(info["banks"]) == 1 or b["index"] != 0)
        if any(u & (u - 1) for u in units):
            nonpow2 += 1
            chk.nontriv((pi, "addresses"))
        pyok, why = py_addresses_ok(info)
        if ans != "1" or not pyok:
            text = ""
            for cc in cases:
                if cc["pi"] == pi and cc["rq"][0] == "a":
                    hx_, _m = split_out(cc["out"])
                    text = bytes.fromhex(hx_).decode("utf-8") if hx_ and hx_ != "-" else ""
                    break
            chk.violation("a listed logical address is not the address the bank layout assigns to that output position "
                          "(extracted addresses_ok: %s; Python reading: %s)" % (ans, why or "agrees"),
                          dict(c["rep"], format="addresses", banks=info["banks_wire"], spans=info["spans_wire"][:4000],
                               annotated_text=text[:3000]))
    chk.count("addresses", len(okprogs), programs_with_non_power_of_two_unit=nonpow2)

    # ---- model and checker lines
    rs = chk.rng.fork("shuffle")
    mlines, clines = [], []
    for c in cases:
        info, (kind, base, group) = c["info"], c["rq"]
        hexs, marker = split_out(c["out"])
        c["hex"], c["marker"] = hexs, marker
        b = info["bits"] or "-"
        if kind in ("a", "t", "s"):
            mlines.append("M %s %d %d * %s %s %s" % (kind, base, group, b, info["spans_wire"], info["files_wire"]))
            clines.append("C %s %d %d %s %s %s %s" % (kind, base, group, b, info["spans_wire"], info["files_wire"], hexs or "-"))
        else:
            mode = "d" if kind == "y" else "m"
            sw = ",".join(s["wire"] for s in rs.shuffle(info["syms"])) or "."
            mlines.append("Y %s %s" % (mode, sw))
            clines.append("K %s %s %s" % (mode, info["syms_wire"], hexs or "-"))
    mres = vlib.run_lines(model, mlines)
    cres = vlib.run_lines(model, clines)

    # ---- sensitivity controls: damaged implementation texts, and the pre-F53 model text, must be rejected
    rd = chk.rng.fork("damage")
    dlines, dmeta = [], []
    for ci, c in enumerate(cases):
        if c["hex"] is None or (ci % 3 != 0 and c["stream"] != "directed"):
            continue
        info, (kind, base, group) = c["info"], c["rq"]
        text = bytes.fromhex(c["hex"]).decode("utf-8") if c["hex"] != "-" else ""
        bad = damage(rd, kind, text, info)
        if bad is None or bad == text:
            continue
        b = info["bits"] or "-"
        bh = vlib.hx(bad) or "-"
        if kind in ("a", "t", "s"):
            dlines.append("C %s %d %d %s %s %s %s" % (kind, base, group, b, info["spans_wire"], info["files_wire"], bh))
        else:
            dlines.append("K %s %s %s" % ("d" if kind == "y" else "m", info["syms_wire"], bh))
        dmeta.append((ci, bad))
    dres = vlib.run_lines(model, dlines)
    # pre-F53 behaviour: model text with fixed=0; where it differs from the repaired text the checker must say 0
    plines, pmeta = [], []
    for ci, c in enumerate(cases):
        kind, base, group = c["rq"]
        if kind in ("a", "t") and ("bit-granular" in c["tags"] or c["stream"] == "directed"):
            info = c["info"]
            plines.append("M %s %d %d 0 %s %s %s" % (kind, base, group, info["bits"] or "-", info["spans_wire"], info["files_wire"]))
            pmeta.append(ci)
    pres = vlib.run_lines(model, plines)
    p2lines, p2meta = [], []
    for ci, ans in zip(pmeta, pres):
        c = cases[ci]
        f = ans.split(" ")
        if f[0] == "T" and f[1] != (c["hex"] or "-") and mres[ci] == "T " + (c["hex"] or "-"):
            kind, base, group = c["rq"]
            info = c["info"]
            p2lines.append("C %s %d %d %s %s %s %s" % (kind, base, group, info["bits"] or "-", info["spans_wire"], info["files_wire"], f[1]))
            p2meta.append(ci)
    p2res = vlib.run_lines(model, p2lines)

    # ---- verdicts
    ndis = 0
    counts = {}
    fmtdist = {}
    for ci, c in enumerate(cases):
        info, (kind, base, group) = c["info"], c["rq"]
        counts[c["stream"]] = counts.get(c["stream"], 0) + 1
        key = {"a": "annotated", "t": "tcgame", "s": "addrspan", "y": "symbols", "m": "mesen"}[kind]
        fmtdist["fmt_" + key] = fmtdist.get("fmt_" + key, 0) + 1
        if kind in ("a", "t"):
            fmtdist["base_%d" % base] = fmtdist.get("base_%d" % base, 0) + 1
            fmtdist["group_%d" % group] = fmtdist.get("group_%d" % group, 0) + 1
        rep = dict(c["rep"], request=req_wire(c["rq"]), format=key)
        if c["hex"] is None:
            chk.violation("the %s formatter crashed (%s) on a program that assembled" % (key, c["out"][:20]), rep)
            continue
        if c["marker"] != "=":
            chk.violation("driver::format_output and the direct %s formatter disagree (%s)" % (key, c["marker"][:40]), rep)
            continue
        text = bytes.fromhex(c["hex"]).decode("utf-8") if c["hex"] != "-" else ""
        partial = kind in ("a", "t") and any(s["size"] % KBITS[base] for s in info["spans"])
        if c["tags"] - {"directed", "instructions", "res", "addr", "align", "revisit", "mesen-header"} or partial or c["stream"] == "directed":
            chk.nontriv((c["pi"], req_wire(c["rq"])))
        # (2) the specification, evaluated on the implementation's text
        if cres[ci] != "1":
            chk.violation("the %s text does not tell the truth about the output: the extracted checker of Spec/ListingSpec.v rejects it (%s)" % (key, cres[ci]),
                          dict(rep, impl_text=text[:4000], bits=info["bits"][:4000], spans=info["spans_wire"][:4000], symbols=info["syms_wire"][:4000]))
            continue
        # (3) independent Python reading
        if kind == "a":
            ok, why = py_annotated_ok(info, base, group, text)
        elif kind == "s":
            ok, why = py_addrspan_ok(info, text)
        elif kind == "y":
            ok, why = py_symbols_ok(info, text)
        elif kind == "m":
            ok, why = py_mesen_ok(info, text)
        else:
            ok, why = True, ""
        if not ok:
            chk.violation("the %s text disagrees with the independent Python reading of the spans/bits/symbols: %s" % (key, why[:300]),
                          dict(rep, impl_text=text[:4000], bits=info["bits"][:4000], spans=info["spans_wire"][:4000], symbols=info["syms_wire"][:4000]))
            continue
        # (1) correspondence with the model
        if mres[ci] != "T " + (c["hex"] or "-"):
            ndis += 1
            chk.violation("model/implementation correspondence broken for %s (the text itself still passes the specification)" % key,
                          dict(rep, kind="correspondence", impl_text_hex=c["hex"][:6000], model=mres[ci][:6000],
                               theorems=["C12_rows_annotated", "C12_rows_tcgame", "C12_rows_addrspan", "C12_symbols", "C12_mesen"]), found=False)
            continue
        if ci % 701 == 3:
            chk.sample({"format": req_wire(c["rq"]), "program": c["rep"]["main"][:400], "text": text[:500]})
    # controls
    nrej = 0
    for (ci, bad), ans in zip(dmeta, dres):
        if ans == "1":
            c = cases[ci]
            # a damaged text may by chance still be true (e.g. two identical rows swapped); only a control, but report it
            chk.violation("sensitivity control: the extracted checker ACCEPTS a damaged %s text" % c["rq"][0],
                          dict(c["rep"], kind="control", request=req_wire(c["rq"]), damaged_text=bad[:4000]), found=False)
        else:
            nrej += 1
    npinned = 0
    for ci, ans in zip(p2meta, p2res):
        if ans == "1":
            c = cases[ci]
            chk.violation("sensitivity control: the checker accepts the pre-F53 text (digits filled with the next item's bits)",
                          dict(c["rep"], kind="control", request=req_wire(c["rq"])), found=False)
        else:
            npinned += 1
    for s, n in counts.items():
        chk.count(s, n)
    chk.count("controls_damaged_text", len(dmeta))
    chk.count("controls_pre_F53_text", len(p2meta))
    chk.cov["streams"].setdefault("programs", {"cases": 0}).update(fmtdist)
    chk.cov["streams"]["programs"].update(tagdist)
    chk.cov["programs_generated"] = len(progs)
    chk.cov["programs_assembled"] = outcome["OK"]
    chk.cov["programs_rejected_by_assembler"] = outcome["ERR"]
    chk.cov["controls_rejected"] = {"damaged": nrej, "pre_F53": npinned}
    chk.cov["traces_validated_against_impl"] = len(cases)
    chk.cov["disagreements_checked"] = ndis
    chk.cov["profiles"] = ["debug", "release"]
    if outcome["OK"] * 2 < len(progs):
        chk.violation("generator health: fewer than half of the generated programs assemble (%d of %d)" % (outcome["OK"], len(progs)),
                      {"kind": "infrastructure"}, found=False)


def replay(chk, rep):
    bins = vlib.harness_build(("debug", "release"), bins=["listing"])
    vlib.extraction("ExListing")
    model = [vlib.ocaml_build("listing_driver", ["listing_model"])]
    r = rep.get("replay", rep)
    line = r.get("impl_line")
    if not line:
        print("replay holds no input line (%s)" % r.get("kind"))
        return 0
    print("program:\n" + r.get("main", ""))
    for k, v in (r.get("files") or {}).items():
        print("file %s:\n%s" % (k, v))
    for p in ("debug", "release"):
        out = vlib.run_lines([bins[p] + "/listing"], [line], shards=1)[0]
        info = parse_answer(out)
        if info is None:
            print("implementation (%s) now: %s" % (p, out[:300]))
            continue
        reqs = line.split("\t")[3].split(" ")
        print(" addresses against the bank layout (%s): extracted addresses_ok = %s ; Python reading: %s" % (
            info["banks_wire"], vlib.run_lines(model, ["A %s %s" % (info["banks_wire"], info["spans_wire"])], shards=1)[0],
            py_addresses_ok(info)[1] or "agrees"))
        print("implementation (%s) now: bits=%s\n spans=%s\n symbols=%s" % (p, info["bits"][:400], info["spans_wire"][:1500], info["syms_wire"][:1500]))
        for rq, o in zip(reqs, info["outs"]):
            hexs, marker = split_out(o)
            if r.get("request") and rq != r.get("request"):
                continue
            print(" -- %s (driver: %s)" % (rq, marker))
            if hexs is None:
                print("    " + o)
                continue
            print(bytes.fromhex(hexs).decode("utf-8") if hexs != "-" else "")
            q = rq.split(":")
            kind = q[0]
            if kind in ("a", "t", "s"):
                base, group = (int(q[1]), int(q[2])) if len(q) > 2 else (0, 0)
                cl = "C %s %d %d %s %s %s %s" % (kind, base, group, info["bits"] or "-", info["spans_wire"], info["files_wire"], hexs)
                ml = "M %s %d %d * %s %s %s" % (kind, base, group, info["bits"] or "-", info["spans_wire"], info["files_wire"])
            else:
                cl = "K %s %s %s" % ("d" if kind == "y" else "m", info["syms_wire"], hexs)
                ml = "Y %s %s" % ("d" if kind == "y" else "m", info["syms_wire"])
            a = vlib.run_lines(model, [cl, ml], shards=1)
            print("    extracted checker on this text: %s ;  model text %s the implementation's" % (
                a[0], "==" if a[1] == "T " + hexs else "!="))
    print("recorded: " + str({k: (v[:300] if isinstance(v, str) else v) for k, v in r.items() if k not in ("impl_line", "main", "files")}))
    return 0
