"""C13 — diagnostics point at the fault.
Theorems: coq/Props/C13.v (line/column and line-range arithmetic of util/char_counter.rs and the location part of
diagn/report.rs, for every text and every byte index; the pinned char-index algorithm is refuted there).
Streams (implementation = harness/src/bin/linecol.rs on the crate built from the tree under test):
  linecol  CharCounter directly on (text, byte index): exhaustive short texts + random texts over
           {a, e-acute(2 bytes), hiragana a(3), emoji(4), LF, blank, CR} x every byte index x every line number
  fault    G-fault: generated valid program (ISA block, labels, constants, data, optional included ISA file and
           included code file, CRLF variant) x fault kind x fault position (main or included file) x non-ASCII
           characters in comments/strings before, on and after the fault line
  monitor  location validity + printed line:col of EVERY message (inner ones too) of token-level mutants of the
           repository's tests/**/*.asm (delete/duplicate/swap/replace tokens, insert non-ASCII characters)
"""
import os, json
import vlib
import c13_gen as g

RULE = ("linecol: all texts of length <= 4 (quick) / 5 (thorough) over the 7-symbol alphabet {a, U+E9, U+3042, U+1F600, LF, blank, CR} "
        "plus random texts up to 64 / 160 characters, each x EVERY byte index 0..len (on and off character boundaries) x every line "
        "number 0..count+1; non-trivial = distinct (text, index) with a multi-byte character before the index. "
        "fault: generated valid program x 5 fault kinds x position x non-ASCII context (before/on/after the fault line, leading block "
        "comment shifting the column, included file, CRLF); unfinished directives are generated on purpose before a line that CAN continue them "
        "(known finding F51 applies only there), before a `#` directive line, as the last line of the main / included file with and without a "
        "final line feed (there the error must be on the fault line); a multi-line #bankdef block (main or included banks.asm, `name = v` or "
        "`#name v` fields) gets an unknown / duplicate / ill-valued field at every index and the error must be that field's name token; the ISA "
        "has an asm-block rule and a rule calling a user function with an assertion (function next to the rules or in the library file) so that "
        "message trees nest across two or three files; an overloaded mnemonic with 2..4 typed candidates of distinct sizes and a sub-rule with "
        "alternatives, so that an out-of-range operand makes ALL candidates fail (the fused top-level error must itself be located on the "
        "instruction); block comments (single-line, or opened on earlier lines and ending on the fault line) "
        "stand in front of the faulty statement and the first error must lie within the statement's own tokens; include chains 1..4 deep with "
        "the #include of a missing file in the file at every depth (error = the file-name token of that #include, in the file containing it); "
        "message trees are checked as a whole: and every message is checked as print_all shows it inside its whole tree (file name, "
        "line:col, excerpt lines against ITS OWN file); non-trivial = distinct (kind, fault text, decoration, context, included?, "
        "multi-byte character before the fault in the same file). monitor: every message of 1..4-edit token mutants of the corpus; "
        "non-trivial = distinct (file, mutant) producing at least one located message after a multi-byte character.")

THEOREMS = ["C13_linecol", "C13_linecol_exec", "C13_line_range", "C13_print_total", "C13_print_never_panics"]


# ----------------------------------------------------------------------------- helpers
class Limiter:
    """keep the first few violations of each class (all are counted)"""

    def __init__(self, chk, per_class=2):
        self.chk, self.per, self.n = chk, per_class, {}

    def add(self, cls, what, rep, found=True):
        k = self.n.get(cls, 0)
        self.n[cls] = k + 1
        if k < self.per:
            rep = dict(rep)
            rep["class"] = cls
            self.chk.violation(what, rep, found=found)

    def finish(self):
        self.chk.cov["violation_classes"] = dict(self.n)


def run_isolating(cmd, lines):
    """run_lines, then re-run alone every case answered CRASH (a dying process takes the rest of its shard with it)"""
    res = vlib.run_lines(cmd, lines)
    bad = [i for i, r in enumerate(res) if r == "CRASH"]
    if bad and len(bad) <= 400:
        for i in bad:
            res[i] = vlib.run_lines(cmd, [lines[i]], shards=1, timeout=120)[0]
    return res


def lossy(b):
    """FileServer::get_str: String::from_utf8_lossy (spans index this text)"""
    try:
        b.decode("utf-8")
        return b
    except UnicodeDecodeError:
        return b.decode("utf-8", "replace").encode("utf-8")


def parse_msgs(field):
    out = []
    if not field:
        return out
    for m in field.split(";"):
        f = m.split(",")
        name = None
        if f[3] not in ("", "!"):
            name = bytes.fromhex(f[3]).decode("utf-8", "replace")
        out.append({"depth": int(f[0]), "kind": f[1], "span": f[2], "file": name, "badfile": f[3] == "!",
                    "start": int(f[4]), "end": int(f[5]), "pl": f[6], "pc": f[7], "short": (f[8] if len(f) > 8 else "0"),
                    "tree": (f[9], f[10], f[11], f[12]) if len(f) > 12 else None})
    return out


def squeeze(b):
    """a source line as the excerpt shows it, up to blanks: print_msg_src turns every character <= ' ' into blanks"""
    return bytes(x for x in b if x > 0x20)


def check_message(files, m):
    """the first sentence of the property for one message; returns None or what is wrong.  files: name -> bytes (lossy-decoded)"""
    if m["span"] == "-":
        return None
    if m["badfile"] or m["file"] not in files:
        return "message names no existing input file (%r)" % (m["file"],)
    if m["span"] == "D":
        return None
    bad = g.check_span(files, m["file"], m["start"], m["end"])
    if bad:
        return bad
    if m["pl"] == "P":
        return "printing the message panics"
    if m["pl"] == "?":
        return "no `file:line:col` header printed for a located message"
    l, c = g.spec_linecol(files[m["file"]], m["start"])
    if (m["pl"], m["pc"]) != (str(l + 1), str(c + 1)):
        return "printed %s:%s but byte %d of %s is line %d, character column %d" % (m["pl"], m["pc"], m["start"], m["file"], l + 1, c + 1)
    # the same message as print_all shows it inside its whole message tree (nested messages may live in other files)
    t = m.get("tree")
    if t is not None:
        if t[0] == "P":
            return "printing the message tree panics"
        if t[0] == "?":
            return "the message (or its `file:line:col` header) is missing from the printed message tree"
        tfile = bytes.fromhex(t[0]).decode("utf-8", "replace")
        if tfile != m["file"]:
            return "inside its message tree the message is printed under file %r, its span is in %r" % (tfile, m["file"])
        if (t[1], t[2]) != (str(l + 1), str(c + 1)):
            return "inside its message tree the message is printed at %s:%s:%s but byte %d of %s is line %d, character column %d" % (
                tfile, t[1], t[2], m["start"], m["file"], l + 1, c + 1)
        ranges = g.line_ranges(files[m["file"]])
        shown = []
        for item in (t[3].split("/") if t[3] != "-" else []):
            n, _, hx = item.partition(":")
            n = int(n)
            shown.append(n)
            want = files[m["file"]][ranges[n - 1][0]:ranges[n - 1][1]] if 1 <= n <= len(ranges) else None
            if want is None or squeeze(bytes.fromhex(hx)) != squeeze(want):
                return "the excerpt under %s:%s:%s shows as line %d %r, line %d of that file is %r" % (
                    tfile, t[1], t[2], n, bytes.fromhex(hx).decode("utf-8", "replace"), n,
                    None if want is None else want.decode("utf-8", "replace"))
        if (l + 1) not in shown:
            return "the excerpt under %s:%s:%s does not show line %d" % (tfile, t[1], t[2], l + 1)
    return None


def model_lines_for(files, msgs):
    """one M line per located message whose span is inside its file (the model is only defined on texts)"""
    lines, idx = [], []
    for k, m in enumerate(msgs):
        if m["span"] == "S" and m["file"] in files and m["start"] <= len(files[m["file"]]) and m["end"] <= len(files[m["file"]]):
            lines.append("M %s %d %d %s" % (files[m["file"]].hex(), m["start"], m["end"], m["short"]))
            idx.append(k)
    return lines, idx


def print_correspondence(chk, lim, model, mlines, mwhere, describe):
    """what report.rs printed for a message vs the model of print_msg_src on (file text, span).  Only messages on which the
    specification holds reach this point (a message that violates it has already been reported as such)."""
    ndis = 0
    mres = vlib.run_lines([model], mlines)
    bad = []
    for k, ((ci, m), a) in enumerate(zip(mwhere, mres)):
        want = "M\tP" if m["pl"] == "P" else "M\t%s\t%s" % (m["pl"], m["pc"])
        if not (a == want or a.startswith(want + "\t")):
            bad.append(k)
    pres = vlib.run_lines([model], ["MP" + mlines[k][1:] for k in bad]) if bad else []
    for k, pa in zip(bad, pres):
        ci, m = mwhere[k]
        a = mres[k]
        ndis += 1
        want = "M\tP" if m["pl"] == "P" else "M\t%s\t%s" % (m["pl"], m["pc"])
        pinned = " (the implementation agrees with the PINNED model: F2/F3)" if (pa == want or pa.startswith(want + "\t")) else ""
        rep = describe(ci)
        rep.update({"message": m, "model": a, "pinned_model": pa, "theorems": THEOREMS})
        lim.add("print-correspondence", "report.rs printed %s:%s for bytes %d..%d of %s, the model of print_msg_src says %s%s" % (
            m["pl"], m["pc"], m["start"], m["end"], m["file"], a.replace("\t", " "), pinned), rep, found=False)
    return ndis


# ----------------------------------------------------------------------------- stream (i)
def stream_linecol(chk, lim, model, bins):
    quick = chk.tier == "quick"
    rng = chk.rng.fork("linecol")
    texts = list(g.all_texts(g.ALPHABET, 4 if quick else 5))
    seen = set(texts)
    directed = ["; éééé\nfoo\n", "é\n", "\né", "a\r\né\r\nb", "あ" * 5 + "\n" + "😀" * 3, "\n\n\n", "😀", "ab\n" * 3 + "é"]
    for t in directed:
        if t not in seen:
            seen.add(t); texts.append(t)
    for _ in range(6000 if quick else 40000):
        t = g.gen_text(rng, 64 if quick else 160)
        if t not in seen:
            seen.add(t); texts.append(t)
    impl_lines = ["L\t" + vlib.hx(t) for t in texts]
    res = {p: vlib.run_lines([bins[p] + "/linecol"], impl_lines) for p in ("debug", "release")}
    mod = vlib.run_lines([model], ["L " + vlib.hx(t) for t in texts])
    pin = vlib.run_lines([model], ["LP " + vlib.hx(t) for t in texts])
    cspec = vlib.run_lines([model], ["S " + vlib.hx(t) for t in texts])
    pairs = 0
    dist = {"texts": len(texts), "boundary_indices": 0, "off_boundary_indices": 0, "line_ranges": 0, "texts_with_multibyte": 0}
    ndis = 0
    for ti, t in enumerate(texts):
        b = t.encode("utf-8")
        impl = res["debug"][ti]
        if impl != res["release"][ti]:
            lim.add("profile-divergence", "debug and release builds disagree on CharCounter",
                    {"kind": "linecol", "text": t, "debug": impl, "release": res["release"][ti]})
            continue
        f = impl.split("\t")
        if len(f) != 4 or f[0] != "L":
            lim.add("linecol-crash", "CharCounter run crashed: %s" % impl[:80], {"kind": "linecol", "text": t, "impl": impl})
            continue
        lcs, rgs = f[2].split(","), f[3].split(",")
        ranges = g.line_ranges(b)
        nlines = len(ranges)
        if len(b) != len(t):
            dist["texts_with_multibyte"] += 1
        # --- spec predicate on the implementation's own output
        why = None
        if f[1] != str(nlines):
            why = "get_line_count = %s, the text has %d lines" % (f[1], nlines)
        for i in range(len(b) + 1):
            pairs += 1
            if not g.is_boundary(b, i):
                dist["off_boundary_indices"] += 1
                continue
            dist["boundary_indices"] += 1
            l, c = g.spec_linecol(b, i)
            if len(b[:i]) != len(b[:i].decode("utf-8")):
                chk.nontriv((t, i))
            if why is None and lcs[i] != "%d:%d" % (l, c):
                why = "get_line_column_at_index(%d) = %s, specification %d:%d" % (i, lcs[i], l, c)
        for n in range(nlines + 2):
            dist["line_ranges"] += 1
            want = ranges[n] if n < nlines else (len(b), len(b))
            got = rgs[n].split(":") if n < len(rgs) else ["?"]
            if why is None:
                if got[0] == "P" or len(got) != 3:
                    why = "get_index_range_of_line(%d) panics" % n
                elif (int(got[0]), int(got[1])) != want:
                    why = "get_index_range_of_line(%d) = %s..%s, line %d is bytes %d..%d" % (n, got[0], got[1], n, want[0], want[1])
                elif not (g.is_boundary(b, int(got[0])) and g.is_boundary(b, int(got[1]))):
                    why = "get_index_range_of_line(%d) = %s..%s is off a character boundary" % (n, got[0], got[1])
                elif got[2] != "k":
                    why = "get_excerpt of line %d (%s..%s) panics" % (n, got[0], got[1])
        rep = {"kind": "linecol", "text": t, "text_hex": vlib.hx(t), "impl": impl, "model": mod[ti], "pinned_model": pin[ti]}
        if why:
            same = "; the output equals the PINNED char-index model (defects F2/F3)" if impl == pin[ti] else ""
            lim.add("linecol-spec" + ("-pinned" if same else ""), "CharCounter on %r: %s%s" % (t, why, same), rep)
        elif impl != mod[ti]:
            ndis += 1
            rep["theorems"] = THEOREMS
            lim.add("linecol-correspondence", "model/implementation correspondence broken on %r (specification still holds on boundaries): "
                    "impl %s model %s" % (t, impl, mod[ti]), rep, found=False)
        # --- the Coq specification (extracted) against the Python reading of the property text
        want_s = "S\t%d\t%s\t%s" % (nlines,
                                  ",".join(("%d:%d" % g.spec_linecol(b, i)) if g.is_boundary(b, i) else "-" for i in range(len(b) + 1)),
                                  ",".join("%d:%d" % (ranges[n] if n < nlines else (len(b), len(b))) for n in range(nlines + 2)))
        if cspec[ti] != want_s:
            lim.add("spec-formalisation", "Spec/LineCol.v (extracted) and the Python reading of the property disagree on %r" % t,
                    {"kind": "linecol", "text": t, "coq_spec": cspec[ti], "python_spec": want_s}, found=False)
        if ti % 1500 == 7:
            chk.sample({"stream": "linecol", "text": t, "impl": impl, "model": mod[ti]})
    chk.count("linecol", pairs, **dist)
    return len(texts), ndis


# ----------------------------------------------------------------------------- stream (ii)
def fault_verdict(case, r, known):
    """spec predicate of the second sentence of the property on one answer line; returns (class or None, text)"""
    q = case["prog"]
    files = q.bytes_map()
    f = r.split("\t")
    if f[0] != "R":
        return "fault-crash", "assembling the faulty program crashed (%s)" % r[:40]
    if f[3] == "NOHOOK":
        return "nohook", ""
    msgs = parse_msgs(f[3])
    errs = [m for m in msgs if m["depth"] == 0 and m["kind"] == "E"]
    if f[1] != "err" or not errs:
        return "fault-undiagnosed", "the faulty program (%s: `%s`) is assembled without any error" % (case["kind"], case["stmt"])
    m = errs[0]
    efile, eline = case["expect"]
    if m["span"] != "S":
        return "fault-unlocated", "the first error carries no location"
    if m["file"] != efile:
        return "fault-wrong-file", "the first error is located in %r, the fault is in %r" % (m["file"], efile)
    b = files[efile]
    bad = g.check_span(files, efile, m["start"], m["end"])
    if bad:
        return "fault-span-invalid", bad
    lo, hi = g.line_ranges(b)[eline]
    if not (lo <= m["start"] <= m["end"] <= hi):
        l, c = g.spec_linecol(b, m["start"])
        return ("fault-wrong-line-after" if m["start"] >= hi else "fault-wrong-line-before" if m["start"] < lo else "fault-span-spills-over"), \
            "the first error is located at %s:%d:%d (bytes %d..%d), the fault is on line %d" % (
                efile, l + 1, c + 1, m["start"], m["end"], eline + 1)
    sr = case.get("stmt_range")
    if sr is not None and (efile, eline) == (case["file"], case["line"]):
        # the error points at the faulty statement's own tokens, not at the comment or blanks in front of / behind it
        s0 = lo + sr[0]
        if not (s0 <= m["start"] and m["end"] <= s0 + sr[1]):
            l, c = g.spec_linecol(b, m["start"])
            tl, tc = g.spec_linecol(b, s0)
            return "fault-outside-statement", "the first error is located at %s:%d:%d (bytes %d..%d), the faulty statement `%s` is at %d:%d (bytes %d..%d)" % (
                efile, l + 1, c + 1, m["start"], m["end"], case["stmt"], tl + 1, tc + 1, s0, s0 + sr[1])
    if case.get("token") is not None:
        # a faulty field of a multi-line block: the error is the field's own name token, not the block or an earlier field
        ts = lo + case["token"][0]
        if (m["start"], m["end"]) != (ts, ts + case["token"][1]):
            l, c = g.spec_linecol(b, m["start"])
            tl, tc = g.spec_linecol(b, ts)
            return "fault-wrong-token", "the first error is located at %s:%d:%d (bytes %d..%d), the faulty field name is at %d:%d (bytes %d..%d)" % (
                efile, l + 1, c + 1, m["start"], m["end"], tl + 1, tc + 1, ts, ts + case["token"][1])
    if case["other"] is not None:
        # duplicate declaration: the nested note points at the earlier declaration
        notes = [x for x in msgs[1:] if x["depth"] == 1 and x["span"] == "S"]
        ofile, oline = case["other"]
        olo, ohi = g.line_ranges(files[ofile])[oline]
        if not any(x["file"] == ofile and olo <= x["start"] <= x["end"] <= ohi for x in notes):
            return "fault-note-elsewhere", "the duplicate's note does not point at the other declaration (%s line %d)" % (ofile, oline + 1)
    return None, ""


def stream_fault(chk, lim, model, bins):
    quick = chk.tier == "quick"
    rng = chk.rng.fork("fault")
    nprog = 2000 if quick else 20000
    progs = [g.gen_program(rng.fork("p%d" % i)) for i in range(nprog)]
    cases = []
    for i, p in enumerate(progs):
        for k in g.KINDS:
            for rep in range(1 if quick else 2):
                c = g.inject(rng.fork("f%d/%s/%d" % (i, k, rep)), p, k)
                if c:
                    cases.append(c)
    # include chains root -> A -> B ...: a missing file included from the file at depth d (0 = the root)
    for i in range(600 if quick else 6000):
        bp, c = g.gen_include_chain(rng.fork("chain%d" % i))
        progs.append(bp)
        cases.append(c)
    nprog = len(progs)
    lines = [p.wire() for p in progs] + [c["prog"].wire() for c in cases]
    res = {p: run_isolating([bins[p] + "/linecol"], lines) for p in ("debug", "release")}
    known = {f["class"]: f for f in vlib.known_findings() if f["property"] == "C13" and f["status"] == "known"}
    dist = {"baseline_programs": nprog, "faults": len(cases), "fault_in_included_file": 0, "crlf": 0, "messages_checked": 0,
            "first_error_on_fault_line": 0, "open_ended_directive_faults": 0}
    for k in g.KINDS:
        dist["kind_" + k] = 0
    for w in ("none", "before", "after", "both"):
        dist["nonascii_context_" + w] = 0
    for w in ("none", "before", "after", "both", "multiline_before", "multiline_both"):
        dist["nonascii_on_line_" + w] = 0
    nohook = False
    # --- baselines must assemble cleanly (otherwise the "single fault" premise is void)
    for i, p in enumerate(progs):
        r = res["debug"][i]
        f = r.split("\t")
        if not (f[0] == "R" and f[1] == "ok" and (f[3] == "" or f[3] == "NOHOOK")):
            lim.add("generator", "a generated fault-free program is not assembled cleanly: %s" % r[:100],
                    {"kind": "program", "stream": "fault", "entry": p.entry, "files": {n: p.text(n) for n in p.order}, "impl": r}, found=False)
    mlines, mwhere = [], []
    for ci, c in enumerate(cases):
        idx = nprog + ci
        r = res["debug"][idx]
        q = c["prog"]
        rep = {"kind": "program", "stream": "fault", "fault_kind": c["kind"], "fault_text": c["stmt"], "fault_file": c["file"],
               "fault_line": c["line"] + 1, "expect": [c["expect"][0], c["expect"][1] + 1], "entry": q.entry,
               "situation": c.get("situation"), "field_index": c.get("field_index"), "next_useful_token_after_fault_line": c.get("next_token"), "can_continue": c.get("continues"),
               "files": {n: q.text(n) for n in q.order}, "impl": r}
        dist["kind_" + c["kind"]] += 1
        dist["nonascii_on_line_" + c["on_line"]] += 1
        dist["nonascii_context_" + c["context"]] += 1
        dist["fault_in_included_file"] += 1 if c["included"] else 0
        dist["crlf"] += 1 if q.eol == "\r\n" else 0
        dist["open_ended_directive_faults"] += 1 if c["open_ended"] else 0
        if "include_depth" in c:
            k3 = "include_missing_in_file_at_depth_%d" % c["include_depth"]
            dist[k3] = dist.get(k3, 0) + 1
        if str(c.get("situation", "")).startswith("bankdef_"):
            dist[c["situation"]] = dist.get(c["situation"], 0) + 1
            dist["bankdef_field_not_first"] = dist.get("bankdef_field_not_first", 0) + (1 if c["field_index"] > 0 else 0)
        if c["open_ended"]:
            k2 = "open_ended_" + ("next_can_continue" if c["continues"] else ("at_end_of_file" if c["next_token"] is None else "next_cannot_continue"))
            dist[k2] = dist.get(k2, 0) + 1
            dist["open_ended_in_included_file"] = dist.get("open_ended_in_included_file", 0) + (1 if c["included"] else 0)
        if r != res["release"][idx]:
            rep["release"] = res["release"][idx]
            lim.add("profile-divergence", "debug and release builds disagree", rep)
            continue
        cls, why = fault_verdict(c, r, known)
        if cls == "nohook":
            nohook = True
            f = r.split("\t")
            if f[2] == "panic":
                lim.add("print-panic", "printing the diagnostics of a faulty program panics (hook absent, spans not observable)", rep)
            continue
        files = {n: lossy(b) for n, b in q.bytes_map().items()}
        b = files[c["file"]]
        before = b[:g.line_ranges(b)[c["line"]][0]]
        chk.nontriv((c["kind"], c["stmt"], c["on_line"], c["context"], c["included"], len(before) != len(before.decode("utf-8")),
                     c.get("situation"), c.get("continues")))
        if cls is None:
            dist["first_error_on_fault_line"] += 1
        elif cls in ("fault-wrong-line-after", "fault-span-spills-over", "fault-undiagnosed") and c["open_ended"] and c["continues"]:
            # F51 only where the text after the fault line CAN continue the unfinished statement (next useful token of the
            # same file begins what the parser still expects); before `#...`, `}` or the end of the file the error must be
            # on the fault line, and anything else is a violation
            dist["f51_continuing"] = dist.get("f51_continuing", 0) + 1
            kc = "incomplete_directive_continues_on_next_line"
            if kc in known:
                chk.known(known[kc]["id"], "class=%s: e.g. `%s` at %s:%d: %s" % (kc, c["stmt"], c["file"], c["line"] + 1, why))
            else:
                lim.add(kc, "%s fault `%s` at %s:%d: %s (line breaks are ignorable tokens: the unfinished directive continues on the "
                        "following line)" % (c["kind"], c["stmt"], c["file"], c["line"] + 1, why), rep)
        else:
            lim.add(cls, "%s fault `%s` at %s:%d: %s" % (c["kind"], c["stmt"], c["file"], c["line"] + 1, why), rep)
        # --- first sentence of the property on every message of this run
        if r.split("\t")[0] == "R":
            f = r.split("\t")
            msgs = parse_msgs(f[3])
            if f[2] != "ok":
                lim.add("print-panic", "print_all panics on the diagnostics of a faulty program", rep)
            clean = []
            for m in msgs:
                dist["messages_checked"] += 1
                bad = check_message(files, m)
                if bad:
                    lim.add("message-location", "message of a faulty program: %s" % bad, rep)
                    break
                clean.append(m)
            msgs = clean
            ml, mi = model_lines_for(files, msgs)
            for l, k in zip(ml, mi):
                mlines.append(l)
                mwhere.append((ci, msgs[k]))
        if ci % 700 == 3:
            chk.sample({"stream": "fault", "fault": c["kind"], "text": c["stmt"], "file": c["file"], "line": c["line"] + 1,
                        "program": q.text(c["file"])[:600], "impl": r})
    ndis = print_correspondence(chk, lim, model, mlines, mwhere, lambda ci: {
        "kind": "program", "stream": "fault", "entry": cases[ci]["prog"].entry,
        "files": {n: cases[ci]["prog"].text(n) for n in cases[ci]["prog"].order}})
    chk.count("fault", len(cases) + nprog, **dist)
    return len(mlines), ndis, nohook


# ----------------------------------------------------------------------------- stream (iii)
def stream_monitor(chk, lim, model, bins):
    quick = chk.tier == "quick"
    rng = chk.rng.fork("monitor")
    corp = g.corpus(vlib.REPO)
    per = 16 if quick else 150
    cases = []  # (dir, entry, text or None, kinds, files)
    for (d, files, entries, std) in corp:
        for e in entries:
            try:
                src = files[e].decode("utf-8")
            except UnicodeDecodeError:
                continue
            cases.append((d, e, None, ["unmutated"], files, std))
            r = rng.fork(d + "/" + e)
            for k in range(per):
                text, kinds = g.mutate(r, src, r.range(1, 4))
                cases.append((d, e, text, kinds, files, std))
    lines = []
    for (d, e, text, kinds, files, std) in cases:
        fm = dict(std)
        fm.update(files)
        if text is not None:
            fm[e] = text.encode("utf-8")
        lines.append("P\t%s\t%s" % (vlib.hx(e), ";".join("%s=%s" % (vlib.hx(n), fm[n].hex()) for n in sorted(fm))))
    res = {p: run_isolating([bins[p] + "/linecol"], lines) for p in ("debug", "release")}
    dist = {"corpus_files": sum(1 for c in cases if c[2] is None), "mutants": sum(1 for c in cases if c[2] is not None),
            "runs_with_messages": 0, "messages_checked": 0, "located_messages": 0, "located_after_multibyte": 0, "assembled_ok": 0}
    mlines, mwhere = [], []
    for ci, (d, e, text, kinds, files, std) in enumerate(cases):
        r = res["debug"][ci]
        fm = dict(std)
        fm.update(files)
        if text is not None:
            fm[e] = text.encode("utf-8")
        rep = {"kind": "program", "stream": "monitor", "corpus_dir": d, "entry": e, "edits": kinds,
               "files": {e: fm[e].decode("utf-8", "replace")}, "other_files_from": "tests/%s and std/ of the tree under test" % d, "impl": r}
        for k in kinds:
            dist["edit_" + k] = dist.get("edit_" + k, 0) + 1
        f = r.split("\t")
        if f[0] != "R":
            lim.add("monitor-crash", "assembling a corpus mutant (%s/%s, %s) crashed: %s" % (d, e, "+".join(kinds), r[:40]), rep)
            continue
        if r != res["release"][ci]:
            rep["release"] = res["release"][ci]
            lim.add("profile-divergence", "debug and release builds disagree on %s/%s" % (d, e), rep)
            continue
        if f[1] == "ok":
            dist["assembled_ok"] += 1
        if f[2] != "ok":
            lim.add("print-panic", "print_all panics on the diagnostics of %s/%s (%s)" % (d, e, "+".join(kinds)), rep)
        if f[3] == "NOHOOK":
            continue
        msgs = parse_msgs(f[3])
        if msgs:
            dist["runs_with_messages"] += 1
        lf = {n: lossy(b) for n, b in fm.items()}
        clean = []
        for m in msgs:
            dist["messages_checked"] += 1
            if m["span"] == "S":
                dist["located_messages"] += 1
                if m["file"] in lf and m["start"] <= len(lf[m["file"]]):
                    pre = lf[m["file"]][:m["start"]]
                    if any(x >= 0x80 for x in pre):
                        dist["located_after_multibyte"] += 1
                        chk.nontriv((d, e, hash(text)))
            bad = check_message(lf, m)
            if bad:
                lim.add("message-location", "message of %s/%s (%s): %s" % (d, e, "+".join(kinds), bad), dict(rep, message=m))
                break
            clean.append(m)
        msgs = clean
        # the model is run on a bounded share of the messages (first three located ones of each run)
        ml, mi = model_lines_for(lf, msgs)
        for l, k in list(zip(ml, mi))[:3]:
            if len(l) < 40000:
                mlines.append(l)
                mwhere.append((ci, msgs[k]))
        if ci % 900 == 5 and msgs:
            chk.sample({"stream": "monitor", "file": "tests/%s/%s" % (d, e), "edits": kinds, "impl": r[:300]})
    ndis = print_correspondence(chk, lim, model, mlines, mwhere, lambda ci: {
        "kind": "program", "stream": "monitor", "corpus_dir": cases[ci][0], "entry": cases[ci][1],
        "files": {cases[ci][1]: cases[ci][2] if cases[ci][2] is not None else cases[ci][4][cases[ci][1]].decode("utf-8")}})
    chk.count("monitor", len(cases), **dist)
    return len(mlines), ndis


# ----------------------------------------------------------------------------- entry points
def run(chk):
    chk.rule = RULE
    chk.prove()
    vlib.extraction("ExLineCol")
    model = vlib.ocaml_build("linecol_driver", ["linecol_model"])
    bins = vlib.harness_build(("debug", "release"))
    lim = Limiter(chk)
    n1, d1 = stream_linecol(chk, lim, model, bins)
    n2, d2, nohook = stream_fault(chk, lim, model, bins)
    n3, d3 = stream_monitor(chk, lim, model, bins)
    if nohook:
        lim.add("hook-missing", "the tree under test lacks the guarded accessor Report::verif_messages (hooks/0001-verif-messages.patch): "
                "message spans are not observable, the fault and monitor streams only saw crashes and print panics",
                {"kind": "infrastructure", "missing_hook": "hooks/0001-verif-messages.patch"}, found=False)
    chk.cov["traces_validated_against_impl"] = n1 + n2 + n3
    chk.cov["disagreements_checked"] = d1 + d2 + d3
    lim.finish()
    # the line/directive parser model (C13_spans_valid is a theorem about it): astdump correspondence incl. every span
    import ext_asmparser
    ext_asmparser.run_streams(chk, chk.tier == "quick")


def replay(chk, rep):
    bins = vlib.harness_build(("debug",))
    r = rep.get("replay", rep)
    exe = bins["debug"] + "/linecol"
    if r.get("kind") == "linecol":
        t = r["text"]
        out = vlib.run_lines([exe], ["L\t" + vlib.hx(t)], shards=1)[0]
        b = t.encode("utf-8")
        want = ",".join(("%d:%d" % g.spec_linecol(b, i)) if g.is_boundary(b, i) else "-" for i in range(len(b) + 1))
        print("text: %r\nimplementation now: %s\nrecorded:           %s\nspecification (line:col per byte index, - = off boundary): %s\nline ranges: %s" % (
            t, out, r.get("impl"), want, g.line_ranges(b)))
        return 0
    if r.get("kind") == "program":
        files = dict(r["files"])
        entry = r["entry"]
        fm = {}
        if r.get("corpus_dir"):
            for (d, cf, entries, std) in g.corpus(vlib.REPO):
                if d == r["corpus_dir"]:
                    fm.update(std)
                    fm.update(cf)
        for n, t in files.items():
            fm[n] = t.encode("utf-8")
        line = "P\t%s\t%s" % (vlib.hx(entry), ";".join("%s=%s" % (vlib.hx(n), fm[n].hex()) for n in sorted(fm)))
        out = vlib.run_lines([exe], [line], shards=1)[0]
        for n, t in files.items():
            print("== %s\n%s" % (n, t))
        print("implementation now: %s\nrecorded:           %s" % (out, r.get("impl")))
        for m in parse_msgs(out.split("\t")[3]) if out.startswith("R\t") and out.split("\t")[3] != "NOHOOK" else []:
            print("  message depth %d kind %s file %s bytes %d..%d printed %s:%s -> %s" % (
                m["depth"], m["kind"], m["file"], m["start"], m["end"], m["pl"], m["pc"],
                check_message({n: lossy(b) for n, b in fm.items()}, m) or "location fine"))
        if "expect" in r:
            print("fault (%s `%s`) expected at %s line %d" % (r.get("fault_kind"), r.get("fault_text"), r["expect"][0], r["expect"][1]))
        return 0
    print(json.dumps(r, indent=1)[:4000])
    return 0
