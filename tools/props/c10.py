"""C10 — assembly is a deterministic function of its inputs.
Proved (coq/Props/C10.v): order-independence of every hash-container iteration site inventoried in /repo/src on this run +
inventory-completeness / no-ambient-state table obligations over the regenerated inventory (tools/translate_c10.py).
Observed (this module): the same input assembled again — in fresh processes of the real binary (std's RandomState is seeded
per process), K times in one process after random histories of other assemblies, and on 16 threads at once — gives
byte-identical outputs in every format, identical symbols and identical printed diagnostics."""
import os, shutil, subprocess, json, re, hashlib
from concurrent.futures import ThreadPoolExecutor
import vlib, translate_c10, c10_gen

RULE = ("programs = every tests/**/*.asm of the repository (with its directory and std/ on the mock file server; its `; command:` "
        "line through the real binary) + generated programs (G-c10: symbol tables with many siblings at three levels, asm blocks "
        "with several parameters / inner labels / nested expansion / sub-rule arguments, functions, prefix-sharing rule sets, "
        "#once graphs; G-fault programs of C13 with injected faults; G-banks programs of C06; G-tree include graphs of C14; "
        "G-expr data lines of C05) x option sets; + G-cli format strings and command lines of C18 (diagnostics of bad format "
        "strings).  Each case in one process: K sequential runs + 16 simultaneous threads (debug build), K sequential runs after a differently "
        "shuffled history (debug), K/2 sequential + 16 threads in the release build after a third history; a sample of ~300 (quick) / ~1500 incl. the whole corpus (thorough) programs and the "
        "command lines k times in FRESH processes of the real binary (stdout, stderr, exit status, every output file of a "
        "9-group command line compared byte for byte).  quick K = k = 4, thorough K = k = 16 (directed families: never fewer than 8 fresh processes).  non-trivial = distinct program "
        "with >= 2 entries in some hash container (>= 2 sibling symbols, an asm block, >= 2 function parameters, >= 2 rules, "
        ">= 2 included files) or a format string with >= 2 parameters")

# per process: several ./check C10 runs (other VERIF_REPO trees, other tiers) may be under way at once and each removes its scratch at the end
SCRATCH = os.path.join(vlib.CACHE, "c10", "p%d" % os.getpid())
GEN_V = os.path.join(vlib.COQ, "Gen", "GeneratedC10.v")

REAL_GROUPS = [("annotated", "o_annotated.txt"), ("symbols", "o_symbols.txt"), ("mesen-mlb", "o_mesen.mlb"), ("intelhex", "o_ihex.txt"),
               ("binary", "o_bin.bin"), ("addrspan", "o_addrspan.txt"), ("tcgame", "o_tcgame.txt"), ("hexdump", "o_hexdump.txt"),
               ("annotated,base:2,group:3", "o_annotated2.txt")]


def standalone_tables():
    """Model/C10Tables.v names the generated module: until tools/translate.py appends translate_c10.generate() to
    Gen/Generated.v (then C10Tables.v points there), this module writes Gen/GeneratedC10.v itself on every run"""
    t = open(os.path.join(vlib.COQ, "Model", "C10Tables.v")).read()
    return "Gen.GeneratedC10" in vlib.strip_comments(t)


def setup():
    os.makedirs(SCRATCH, exist_ok=True)
    if standalone_tables():
        translate_c10.write_standalone(vlib.REPO, GEN_V)


# ================================================================================================ programs
class Case:
    __slots__ = ("id", "tag", "roots", "files", "budget", "stat", "matching", "nontrivial", "command", "corpus", "expected_symbols", "fresh_k")

    def __init__(self, tag, roots, files, budget=10, stat=1, matching=1, command=None, corpus=None):
        self.tag, self.roots, self.files, self.budget, self.stat, self.matching = tag, list(roots), dict(files), budget, stat, matching
        self.command, self.corpus = command, corpus
        self.id = None
        self.nontrivial = True
        self.expected_symbols = None
        self.fresh_k = 0          # > 0: always run in fresh processes, at least this many (only a new process reseeds std's hasher for sure)

    def line(self, mode, k):
        return "A\t%s\t%s\t%d\t%d\t%d\t%s\t%s" % (
            mode, k, self.budget, self.stat, self.matching, ",".join(vlib.hx(r) for r in self.roots),
            ";".join("%s=%s" % (vlib.hx(n), (d if isinstance(d, bytes) else d.encode()).hex()) for n, d in self.files.items()))

    def key(self):
        h = hashlib.sha256()
        h.update(repr((self.roots, self.budget, self.stat, self.matching)).encode())
        for n in sorted(self.files):
            h.update(n.encode() + b"\0" + self.files[n] + b"\0")
        return h.hexdigest()[:20]

    def replay(self):
        return {"roots": self.roots, "budget": self.budget, "static": self.stat, "matching": self.matching, "tag": self.tag,
                "files": {n: d.decode("utf-8", "replace") for n, d in self.files.items() if not n.startswith("<std>/")},
                "files_hex": {n: d.hex() for n, d in self.files.items() if not n.startswith("<std>/")},
                "std_files": any(n.startswith("<std>/") for n in self.files), "corpus": self.corpus, "command": self.command}


def hashy(files):
    """does the program put >= 2 entries into some hash container (rule of non-triviality)"""
    text = b"\n".join(files.values())
    return (len(re.findall(rb"(?m)^\s*\.?\.?[A-Za-z_][A-Za-z0-9_]*\s*(?::|=[^=])", text)) >= 2 or b"asm" in text or b"#fn" in text
            or text.count(b"=>") >= 2 or text.count(b"#include") >= 2 or len(files) >= 2)


def corpus_cases():
    """every tests/**/*.asm as the repository's own test runner sees it: the entry's directory (recursively) on the file server + std/"""
    std = {}
    sroot = os.path.join(vlib.REPO, "std")
    for root, _, fs in os.walk(sroot):
        for f in fs:
            rel = os.path.relpath(os.path.join(root, f), sroot).replace(os.sep, "/")
            std["<std>/" + rel] = open(os.path.join(root, f), "rb").read()
    troot = os.path.join(vlib.REPO, "tests")
    dirs = {}
    out = []
    for root, ds, fs in os.walk(troot):
        ds.sort()
        for f in sorted(fs):
            if not f.endswith(".asm"):
                continue
            if root not in dirs:
                files = {}
                for r2, _, f2 in os.walk(root):
                    for g in sorted(f2):
                        rel = os.path.relpath(os.path.join(r2, g), root).replace(os.sep, "/")
                        files[rel] = open(os.path.join(r2, g), "rb").read()
                dirs[root] = files
            files = dirs[root]
            allf = dict(files)
            if any(b"<std>" in c for c in files.values()):
                allf.update(std)
            text = files[f].decode("utf-8", "replace")
            m = re.search(r"; command: (.*)", text)
            cmd = None
            if m:
                cmd = ["customasm"] + [f if a.strip() == "[file]" else a.strip() for a in m.group(1).split(" ")]
            out.append(Case("corpus", [f], allf, command=cmd, corpus=os.path.relpath(os.path.join(root, f), vlib.REPO)))
    if len(out) < 400:
        raise RuntimeError("only %d corpus programs found under %s/tests" % (len(out), vlib.REPO))
    return out


def generated_cases(chk):
    quick = chk.tier == "quick"
    scale = 1 if quick else 3
    out = []
    r = chk.rng.fork("g-c10")
    for _ in range(160 * scale):
        roots, files, tag, expected = c10_gen.symbols(r)
        out.append(Case("g-c10/" + tag, roots, files))
        out[-1].expected_symbols = expected
    for _ in range(170 * scale):
        roots, files, tag, budget = c10_gen.asm_blocks(r)
        out.append(Case("g-c10/" + tag, roots, files, budget=budget, stat=0 if r.chance(0.25) else 1))
    for _ in range(60 * scale):
        roots, files, tag = c10_gen.functions(r)
        out.append(Case("g-c10/" + tag, roots, files))
    for _ in range(100 * scale):
        roots, files, tag, matching = c10_gen.prefixes(r)
        out.append(Case("g-c10/" + tag, roots, files, matching=matching))
    for _ in range(60 * scale):
        roots, files, tag = c10_gen.once_sets(r)
        out.append(Case("g-c10/" + tag, roots, files))
    # the two families whose only hash-order-sensitive observable is a listing order: always in fresh processes, k >= 8
    for _ in range(40 * scale):
        roots, files, tag, matching = c10_gen.ambiguous(r)
        out.append(Case("g-c10/" + tag, roots, files, matching=matching))
        out[-1].fresh_k = 8
    for _ in range(40 * scale):
        roots, files, tag, expected = c10_gen.modules(r)
        out.append(Case("g-c10/" + tag, roots, files))
        out[-1].expected_symbols = expected
        out[-1].fresh_k = 8
    # overloaded sub-rule operands: 2..4 candidates through one top-level rule (ambiguity / every alternative out of range)
    for _ in range(60 * scale):
        roots, files, tag, matching = c10_gen.overloaded_operands(r)
        out.append(Case("g-c10/" + tag, roots, files, matching=matching))
        out[-1].fresh_k = 8
    # colliding parameter names under the asm-block hygiene prefix; several offending things of one kind
    for _ in range(60 * scale):
        roots, files, tag = c10_gen.fn_hygiene(r)
        out.append(Case("g-c10/" + tag, roots, files))
        out[-1].fresh_k = 8
    for _ in range(50 * scale):
        roots, files, tag = c10_gen.multi_fault(r)
        out.append(Case("g-c10/" + tag, roots, files))
        out[-1].fresh_k = 8
    for _ in range(50 * scale):
        roots, files, tag = c10_gen.bankdef_fields(r)
        out.append(Case("g-c10/" + tag, roots, files))
        out[-1].fresh_k = 8
    # generators of the other properties
    try:
        import c13_gen
        r13 = chk.rng.fork("c13")
        kinds = list(c13_gen.FAULT_TEXTS) + ["duplicate_label"]
        for i in range(110 * scale):
            p = c13_gen.gen_program(r13)
            if i % 3:
                q = c13_gen.inject(r13, p, r13.choice(kinds))
                if q:
                    p = q["prog"]
            out.append(Case("g-fault", [p.entry], p.bytes_map()))
    except Exception as e:  # a generator of another property changed shape: say so, keep going with the rest
        chk.cov.setdefault("generator_unavailable", []).append("c13_gen: %r" % (e,))
    try:
        from props import c06
        r06 = chk.rng.fork("c06")
        for _ in range(80 * scale):
            p = c06.gen_program(r06)
            text = p.text if isinstance(p.text, str) else "\n".join(p.text) + "\n"
            out.append(Case("g-banks", ["main.asm"], {"main.asm": text.encode()}))
    except Exception as e:
        chk.cov.setdefault("generator_unavailable", []).append("c06: %r" % (e,))
    try:
        import c14_gen
        r14 = chk.rng.fork("c14")
        for _ in range(90 * scale):
            g = c14_gen.gen_graph(r14)
            out.append(Case("g-tree/" + g["shape"], g["roots"], {n: c14_gen.render_file(v).encode() for n, v in g["files"].items()}))
    except Exception as e:
        chk.cov.setdefault("generator_unavailable", []).append("c14_gen: %r" % (e,))
    try:
        from props import c05
        g5 = c05.Gen(chk.rng.fork("c05"))
        for _ in range(80 * scale):
            lines = []
            for _ in range(g5.r.range(1, 2)):
                t = g5.tree(g5.r.range(1, 4))
                if c05.depth(t) <= 30:
                    lines.append("v%d = %s" % (len(lines), c05.show(t, g5.r.chance(0.5))))
            lines += ["#d %s" % l.split(" = ")[0] for l in lines if g5.r.chance(0.5)]
            out.append(Case("g-expr", ["main.asm"], {"main.asm": ("\n".join(lines) + "\n").encode()}))
    except Exception as e:
        chk.cov.setdefault("generator_unavailable", []).append("c05: %r" % (e,))
    return out


def option_variants(chk, cases):
    """the same programs under the other option sets (a deterministic sample)"""
    r = chk.rng.fork("opts")
    out = []
    for c in cases:
        if r.chance(0.2):
            b, s, m = r.choice([(3, 1, 1), (1, 1, 1), (2, 0, 1), (10, 0, 0), (10, 1, 0), (5, 0, 0)])
            out.append(Case(c.tag + "/opts", c.roots, c.files, budget=b, stat=s, matching=m, corpus=c.corpus))
    return out


# ================================================================================================ in-process stream
def parse_tally(s):
    return [x.rsplit("*", 1)[0] for x in s.split(",") if x]


def diff_texts(exe, line_v, tries=6):
    """run the case in V mode in several fresh harness processes; return up to two distinct canonical texts"""
    seen = []
    for _ in range(tries):
        a = vlib.run_lines([exe], [line_v], shards=1)[0].split("\t")
        if len(a) >= 3 and a[0] == "V":
            t = bytes.fromhex(a[2]).decode("utf-8", "replace")
            if t not in seen:
                seen.append(t)
        if len(seen) >= 2:
            break
    return seen


def first_difference(a, b):
    la, lb = a.split("\n"), b.split("\n")
    for i in range(min(len(la), len(lb))):
        if la[i] != lb[i]:
            return {"line": i + 1, "one": "\n".join(la[max(0, i - 3):i + 3]), "other": "\n".join(lb[max(0, i - 3):i + 3])}
    return {"line": min(len(la), len(lb)) + 1, "one": "\n".join(la[-3:]), "other": "\n".join(lb[-3:])}


def stream_inprocess(chk, cases, lines_of, bins, K, stream, what_of, replay_of, verbose_line_of):
    """cases: list of objects; lines_of(c, mode, K) -> wire line.  Three passes: debug (history A), debug (history B), release (history C)."""
    n = len(cases)
    # (build, history tag, sequential runs, simultaneous threads)
    passes = [("debug", "histA", K, 16), ("debug", "histB", K, 0), ("release", "histC", max(2, K // 2), 16)]
    digests = [dict() for _ in cases]      # pass name -> first digest
    status = [None] * n
    bad = {}
    for prof, hist, kseq, nthr in passes:
        order = chk.rng.fork(stream + "/" + hist).shuffle(list(range(n)))
        res = vlib.run_lines([bins[prof] + "/determ"], [lines_of(cases[i], "D", "%d:%d" % (kseq, nthr)) for i in order], timeout=1500)
        for i, a in zip(order, res):
            f = a.split("\t")
            if f[0] != "R" or len(f) < 4:
                bad.setdefault(i, []).append("%s/%s: the runner died or answered %r (an abort such as a stack overflow takes the whole shard down)" % (prof, hist, a[:60]))
                continue
            seq, thr = parse_tally(f[2]), parse_tally(f[3])
            status[i] = status[i] or f[1]
            digests[i][prof + "/" + hist] = seq[0] if seq else "?"
            if len(seq) != 1:
                bad.setdefault(i, []).append("%s/%s: %d sequential runs in one process gave %d different results (%s)" % (prof, hist, kseq, len(seq), f[2]))
            if nthr and (len(thr) != 1 or (seq and thr and thr[0] != seq[0])):
                bad.setdefault(i, []).append("%s/%s: %d simultaneous threads gave %s, the sequential run %s" % (prof, hist, nthr, f[3], seq[:1]))
    dist = {"ok": 0, "err": 0, "other": 0}
    for i, c in enumerate(cases):
        st = status[i]
        dist["ok" if st == "OK" else "err" if st == "ERR" else "other"] += 1
        ds = digests[i]
        if len(set(ds.values())) > 1:
            dbg = {v for k, v in ds.items() if k.startswith("debug")}
            if len(dbg) > 1:
                bad.setdefault(i, []).append("the result depends on what was assembled before in the same process: %r" % ds)
            else:
                bad.setdefault(i, []).append("debug and release builds give different results: %r" % ds)
    crashed = 0
    for i in sorted(bad):
        c = cases[i]
        msgs = bad[i]
        if all("runner died" in m for m in msgs):
            crashed += 1
            # a crash is not a determinism verdict (C03/C19 speak about crashes); re-run alone to see whether IT is deterministic
            alone = [vlib.run_lines([bins["debug"] + "/determ"], [lines_of(c, "D", "2:2")], shards=1)[0] for _ in range(2)]
            if alone[0] == alone[1]:
                chk.cov.setdefault("crashing_inputs_skipped", []).append(what_of(c)[:120])
                continue
            msgs = msgs + ["alone, twice: %r vs %r" % (alone[0][:80], alone[1][:80])]
        rep = replay_of(c)
        rep.update({"kind": "in-process", "stream": stream, "observations": msgs, "K": K})
        texts = diff_texts(bins["debug"] + "/determ", verbose_line_of(c)) if len(chk.violations) < 8 else []
        if len(texts) >= 2:
            rep["difference"] = first_difference(texts[0], texts[1])
        chk.violation("%s: %s" % (what_of(c), msgs[0]), rep)
    chk.count(stream, n, runs=n * sum(a + b for _, _, a, b in passes), **dist)
    chk.cov["traces_validated_against_impl"] += n * len(passes)
    chk.cov["disagreements_checked"] += len(bad)
    chk.cov[stream + "_crashed_in_runner"] = crashed
    return status


# ================================================================================================ symbol order (correspondence for the symbol_format site)
def stream_symbol_order(chk, cases, status, bins):
    """Model/HashOrder.v format_symbols = children in declaration-index order at every level.  For the generated symbol
    programs the generator knows the declaration order; the implementation's `symbols` output must list exactly these
    names in exactly this order (whatever order the hash maps were iterated in)."""
    pick = [i for i, c in enumerate(cases) if c.expected_symbols is not None and status[i] == "OK" and (c.budget, c.stat, c.matching) == (10, 1, 1)]
    res = vlib.run_lines([bins["debug"] + "/determ"], [cases[i].line("V", "1:0") for i in pick])
    bad = 0
    for i, a in zip(pick, res):
        c = cases[i]
        f = a.split("\t")
        names = None
        if len(f) >= 3 and f[0] == "V":
            t = bytes.fromhex(f[2]).decode("utf-8", "replace")
            m = re.search(r"--- format symbols\n(.*?)\n--- format mesen-mlb", t, re.S)
            if m:
                names = [l.split(" = ")[0] for l in m.group(1).split("\n") if " = " in l]
        if names != c.expected_symbols:
            bad += 1
            rep = c.replay()
            rep.update({"kind": "symbol-order", "stream": "symbol-order", "impl_names": names, "declaration_order": c.expected_symbols,
                        "theorems": ["C10_site_symbol_format_tree", "C10_site_symbol_children"]})
            chk.violation("the symbols output of %r does not list the symbols in declaration order (model: children sorted by declaration index)" % (c.roots,), rep)
    chk.count("symbol-order", len(pick), listed=sum(len(cases[i].expected_symbols) for i in pick))
    chk.cov["traces_validated_against_impl"] += len(pick)
    chk.cov["disagreements_checked"] += bad


# ================================================================================================ fresh processes
def safe_rel(name):
    if name.startswith("<std>/"):
        return None
    if name.startswith("/") or "\\" in name or name == "" or ":" in name or "\0" in name:
        return False
    parts = name.split("/")
    if any(p in ("", ".", "..") for p in parts):
        return False
    return True


def materialise(c, root):
    shutil.rmtree(root, ignore_errors=True)
    os.makedirs(root)
    for n, d in c.files.items():
        s = safe_rel(n)
        if s is None:
            continue
        p = os.path.join(root, n)
        os.makedirs(os.path.dirname(p), exist_ok=True)
        with open(p, "wb") as f:
            f.write(d)


def disk_ok(c):
    return all(safe_rel(n) is not False for n in c.files) and all(safe_rel(r) for r in c.roots)


def snapshot(root, before):
    created = {}
    for dp, _, fs in os.walk(root):
        for f in fs:
            p = os.path.join(dp, f)
            rel = os.path.relpath(p, root)
            data = open(p, "rb").read()
            if before.get(rel) != data:
                created[rel] = data
    return created


def run_fresh(binary, argv, root, before, k):
    """k fresh processes with the same argv in the same directory state; returns list of (rc, stdout, stderr, {file: bytes})"""
    outs = []
    for _ in range(k):
        try:
            pr = subprocess.run([binary] + argv, cwd=root, stdout=subprocess.PIPE, stderr=subprocess.PIPE, timeout=120)
            rc, so, se = pr.returncode, pr.stdout, pr.stderr
        except subprocess.TimeoutExpired:
            rc, so, se = -999, b"", b""
        created = snapshot(root, before)
        for rel in created:
            if rel in before:
                with open(os.path.join(root, rel), "wb") as f:
                    f.write(before[rel])
            else:
                os.remove(os.path.join(root, rel))
        outs.append((rc, so, se, created))
    return outs


def compare_fresh(chk, what, outs, rep, stream):
    base = outs[0]
    for j, o in enumerate(outs[1:], 1):
        if o != base:
            part = "exit status" if o[0] != base[0] else "stdout" if o[1] != base[1] else "stderr" if o[2] != base[2] else "output files"
            r = dict(rep)
            r.update({"kind": "fresh-process", "stream": stream, "differs_in": part, "run_0": show_run(base), "run_%d" % j: show_run(o)})
            if part == "output files":
                names = sorted(set(base[3]) | set(o[3]))
                r["files_differing"] = [n for n in names if base[3].get(n) != o[3].get(n)]
            chk.violation("%s: two fresh processes of customasm disagree (%s)" % (what, part), r)
            return False
    return True


def show_run(o):
    return {"exit": o[0], "stdout": o[1].decode("utf-8", "replace")[:1500], "stderr": o[2].decode("utf-8", "replace")[:3000],
            "files": {n: hashlib.sha256(d).hexdigest()[:16] for n, d in sorted(o[3].items())}}


def real_argv(c):
    argv = list(c.roots) + ["-t", str(c.budget)]
    if not c.stat:
        argv.append("--debug-no-optimize-static")
    if not c.matching:
        argv.append("--debug-no-optimize-matcher")
    first = True
    for fmt, name in REAL_GROUPS:
        if not first:
            argv.append("--")
        argv += ["-f", fmt, "-o", name]
        first = False
    return argv


def stream_fresh(chk, cases, status, real, k):
    quick = chk.tier == "quick"
    idx = [i for i, c in enumerate(cases) if disk_ok(c)]
    r = chk.rng.fork("fresh")
    limit = 300 if quick else 1500
    if len(idx) > limit:
        # a third corpus (thorough: all of it), the rest generated, failing programs over-represented (their diagnostics are what varies)
        corp = [i for i in idx if cases[i].tag == "corpus"]
        gen = [i for i in idx if cases[i].tag != "corpus"]
        errs = [i for i in gen if status[i] == "ERR"]
        oks = [i for i in gen if status[i] != "ERR"]
        nc = 100 if quick else len(corp)
        ne = (limit - min(nc, len(corp))) * 9 // 20
        idx = sorted(set(r.shuffle(corp)[:nc] + r.shuffle(errs)[:ne] + r.shuffle(oks)[:limit - min(nc, len(corp)) - ne]))
    idx = sorted(set(idx) | set(i for i, c in enumerate(cases) if c.fresh_k and disk_ok(c)))

    def work(i):
        c = cases[i]
        root = os.path.join(SCRATCH, "fresh_%d" % i)
        materialise(c, root)
        before = snapshot(root, {})
        kk = max(k, c.fresh_k)
        outs = run_fresh(real, real_argv(c), root, before, kk)
        extra = None
        if c.command:
            extra = run_fresh(real, c.command[1:], root, before, kk)
        shutil.rmtree(root, ignore_errors=True)
        return outs, extra
    with ThreadPoolExecutor(vlib.NCPU) as ex:
        results = list(ex.map(work, idx))
    dist = {"exit0": 0, "exit1": 0, "other_exit": 0, "with_command_line": 0}
    for i, (outs, extra) in zip(idx, results):
        c = cases[i]
        rc = outs[0][0]
        dist["exit0" if rc == 0 else "exit1" if rc == 1 else "other_exit"] += 1
        rep = c.replay()
        rep["argv"] = real_argv(c)
        compare_fresh(chk, "%s %r" % (c.corpus or c.tag, c.roots), outs, rep, "fresh")
        if extra:
            dist["with_command_line"] += 1
            rep2 = c.replay()
            rep2["argv"] = c.command[1:]
            compare_fresh(chk, "%s with its own command line %r" % (c.corpus, c.command[1:]), extra, rep2, "fresh")
    dist["directed_family_programs_8_runs"] = sum(1 for i in idx if cases[i].fresh_k)
    dist["failing_programs"] = sum(1 for i in idx if status[i] == "ERR")
    chk.count("fresh-processes", len(idx), runs=sum(max(k, cases[i].fresh_k) for i in idx), **dist)
    chk.cov["traces_validated_against_impl"] += len(idx)


# ================================================================================================ command lines (G-cli of C18)
class Fmt:
    def __init__(self, s):
        self.s = s


FORMAT_NAMES = ["binary", "annotated", "annotatedbin", "binstr", "hexstr", "bindump", "hexdump", "mif", "intelhex", "deccomma", "hexcomma",
                "decspace", "hexspace", "decc", "hexc", "logisim8", "logisim16", "addrspan", "tcgame", "tcgamebin", "symbols", "mesen-mlb", "nosuch"]


def first_of_several_formats(rng):
    """format strings with SEVERAL unknown / unconsumed arguments (the diagnostic names one of them): independent of
    tools/translate_cli.py, so that this family still runs when that translator cannot read a changed driver.rs"""
    out = []
    unknown = ["zeta:1", "alpha:2", "foo:1", "bar:2", "baz:3", "q", "w", "e", "mm:0", "kappa:9"]
    valid = ["base:16", "base:2", "group:2", "group:3", "addr_unit:8", "addr_unit:16"]
    for name in FORMAT_NAMES:
        out.append(",".join([name, "base:16", "group:2"]))                       # unconsumed for the formats that take neither
        out.append(",".join([name, "base:16", "zeta:1", "alpha:2"]))
        out.append(",".join([name, "addr_unit:16", "group:2", "base:16"]))
        for _ in range(4):
            n = rng.range(2, 5)
            args = rng.shuffle(unknown)[:n] + (rng.shuffle(valid)[:rng.below(3)])
            out.append(",".join([name] + rng.shuffle(args)))
    seen, res = set(), []
    for s in out:
        if s not in seen:
            seen.add(s)
            res.append(s)
    return res


FIRST_OF_SEVERAL_ARGV = [
    ["main.asm", "--zeta", "--alpha"], ["main.asm", "--alpha", "--zeta", "-Q"], ["main.asm", "-Z", "-Y", "-X"],
    ["main.asm", "-dA=1=2", "-dB=3=4"], ["main.asm", "-dB=", "-dA="], ["main.asm", "-dnosuch1", "-dnosuch2", "-dnosuch3"],
    ["main.asm", "-dnosuch2=5", "-dnosuch1=6", "-q"], ["nofile1.asm", "nofile2.asm", "nofile3.asm"], ["nofile2.asm", "main.asm", "nofile1.asm"],
    ["main.asm", "-f", "nosuch1", "--", "-f", "nosuch2"], ["main.asm", "-f", "hexstr,zz:1,yy:2", "--", "-f", "annotated,xx:1,ww:2"],
    ["main.asm", "-t", "0", "-t", "x"], ["main.asm", "--color=maybe", "--color=perhaps"], ["main.asm", "-o", "a.bin", "-o", "b.bin"],
    ["main.asm", "err.asm", "-p"], ["err.asm", "main.asm", "iter.asm", "-p"], ["main.asm", "main.asm", "-p"],
]


def stream_cli(chk, bins, real, K, k):
    import cli_gen
    from props import c18
    quick = chk.tier == "quick"
    kk = max(k, 8)
    t = None
    try:
        import translate_cli
        t = translate_cli.tables(vlib.REPO)
    except Exception as e:      # the C18 translator cannot read the changed driver: the directed families below do not need it
        chk.cov["cli_tables_unavailable"] = repr(e)[:300]
    strings = []
    seen = set()
    several = first_of_several_formats(chk.rng.fork("several"))
    for s in several:
        seen.add(s)
        strings.append(s)
    if t is not None:
        for s, _, _ in cli_gen.fmt_cases(chk.rng.fork("fmt"), t, quick):
            if s not in seen and "\t" not in s and "\n" not in s and "\0" not in s:
                seen.add(s)
                strings.append(s)
    # directed: several unknown parameters in every order (the F16 family), duplicates, mixtures of valid and unknown
    for name in ("binary", "annotated", "intelhex", "hexdump", "symbols", "nosuch"):
        for perm in (["foo:1", "bar:2", "baz:3"], ["baz:3", "bar:2", "foo:1"], ["bar:2", "foo:1", "baz:3"], ["q", "w", "e", "r", "t", "y"],
                     ["base:2", "zz:1", "group:3", "aa:2"], ["base:3", "zz:1"], ["zz:1", "base:3"], ["a:1:2", "b:1:2"], ["x:1", "x:2", "y:1", "y:2"]):
            s = ",".join([name] + perm)
            if s not in seen:
                seen.add(s)
                strings.append(s)
    many = [s for s in strings if s.count(",") >= 2]
    if quick:
        rest = chk.rng.fork("fmtpick").shuffle([s for s in strings if s.count(",") < 2])[:1500]
        strings = many + rest
    objs = [Fmt(s) for s in strings]
    for o in objs:
        if o.s.count(",") >= 2:
            chk.nontriv(("fmt", o.s))
    stream_inprocess(chk, objs, lambda o, mode, kx: "F\t%s\t%s\t%s" % (mode, kx, vlib.hx(o.s)), bins, K, "format-strings",
                     lambda o: "-f %r" % o.s, lambda o: {"format": o.s}, lambda o: "F\tV\t1:0\t%s" % vlib.hx(o.s))
    # fresh processes (only a new process reseeds the hasher for sure): the first-of-several family always, >= 8 processes each;
    # a sample of the other format strings with >= 2 parameters, and whole command lines
    fixed = [x for x in several if x.split(",", 1)[1] in ("base:16,group:2", "base:16,zeta:1,alpha:2", "addr_unit:16,group:2,base:16")]
    several_fresh = fixed + chk.rng.fork("severalpick").shuffle([x for x in several if x not in set(fixed)])[:30 if quick else 100]
    jobs = [("-f %r" % s, ["customasm", "main.asm", "-q", "-p", "-f", s], kk) for s in several_fresh]
    jobs += [("command line %r" % (a,), ["customasm"] + a, kk) for a in FIRST_OF_SEVERAL_ARGV]
    others = [s for s in many if s not in set(several)]
    jobs += [("-f %r" % s, ["customasm", "main.asm", "-p", "-f", s], k) for s in chk.rng.fork("fmtreal").shuffle(others)[:60 if quick else 600]]
    if t is not None:
        cmds, spell = cli_gen.command_cases(chk.rng.fork("cmd"), t, quick, c18.CMD_INPUTS)
        cmds = [cs for cs in cmds if c18.sane_for_disk(cs)]
        cmds = chk.rng.fork("cmdpick").shuffle(cmds)[:80 if quick else 500]
        jobs += [("command line %r" % (cs["argv"][1:],), cs["argv"], k) for cs in cmds]

    def work(j):
        what, argv, n = jobs[j]
        return [c18.run_real(real, argv, os.path.join(SCRATCH, "cli_%d" % j)) for _ in range(n)]
    with ThreadPoolExecutor(vlib.NCPU) as ex:
        results = list(ex.map(work, range(len(jobs))))
    dist = {"exit0": 0, "exit1": 0, "other_exit": 0, "first_of_several_8_runs": len(several_fresh) + len(FIRST_OF_SEVERAL_ARGV)}
    for (what, argv, n), outs in zip(jobs, results):
        rc = outs[0][0]
        dist["exit0" if rc == 0 else "exit1" if rc == 1 else "other_exit"] += 1
        compare_fresh(chk, what, outs, {"argv": argv[1:], "input_files": "the fixed files of tools/props/c18.py (INPUT_FILES)"}, "cli-fresh")
        chk.nontriv(("cmd", tuple(argv)))
    chk.count("command-lines-fresh", len(jobs), runs=sum(j[2] for j in jobs), **dist)
    chk.cov["traces_validated_against_impl"] += len(jobs)


# ================================================================================================ entry points
def inventory_report(chk):
    """the inventory as the Coq obligations see it, repeated in the evidence; a scan failure is a broken tie"""
    inv = translate_c10.inventory(vlib.REPO)
    chk.cov["inventory"] = {
        "files_scanned": len(inv["files"]), "excluded": inv["excluded"],
        "hash_container_uses": len(inv["uses"]),
        "iteration_sites": [{k: r[k] for k in ("file", "function", "line", "kind", "hash")} for r in inv["iteration_sites"]],
        "handed_on": sum(1 for r in inv["uses"] if r["kind"] == "pass"),
        "point_operations": sum(1 for r in inv["uses"] if r["kind"].startswith("point:")),
        "ambient_state_uses": [{k: r[k] for k in ("file", "function", "line", "kind")} for r in inv["ambient"]],
    }
    return inv


def run(chk):
    chk.rule = RULE
    scan_failure = None
    try:
        setup()
        inventory_report(chk)
    except Exception as e:   # the scanner met a construct it cannot classify: the tie to the source is broken (the stale tables stay);
        scan_failure = e     # reported AFTER the streams, so that concrete differing runs come first among the replays
    import time
    t0 = time.time()
    timing = chk.cov.setdefault("timing_s", {})
    chk.prove()
    timing["prove"] = round(time.time() - t0, 1)
    quick = chk.tier == "quick"
    K = 4 if quick else 16
    k = 4 if quick else 16
    bins = vlib.harness_build(("debug", "release"), bins=["determ"])
    real = vlib.customasm_build(("debug",))["debug"]
    timing["build"] = round(time.time() - t0, 1)
    cases = corpus_cases() + generated_cases(chk)
    cases += option_variants(chk, cases)
    seen = set()
    uniq = []
    for c in cases:
        kk = c.key()
        if kk not in seen:
            seen.add(kk)
            uniq.append(c)
    cases = uniq
    tags = {}
    for i, c in enumerate(cases):
        c.id = i
        t = c.tag.split("/")[0]
        tags[t] = tags.get(t, 0) + 1
        if hashy({n: d for n, d in c.files.items() if not n.startswith("<std>/")}):
            chk.nontriv(("prog", c.key()))
    chk.cov["program_sources"] = tags
    timing["generate"] = round(time.time() - t0, 1)
    status = stream_inprocess(chk, cases, lambda c, mode, kk: c.line(mode, kk), bins, K, "programs-in-process",
                              lambda c: "%s %r (budget %d, static %d, matching %d)" % (c.corpus or c.tag, c.roots, c.budget, c.stat, c.matching),
                              lambda c: c.replay(), lambda c: c.line("V", "1:0"))
    timing["in_process"] = round(time.time() - t0, 1)
    failures = []

    def guarded_stream(name, f):
        # one stream's infrastructure failure must not keep the others from looking for a concrete differing pair
        try:
            f()
        except Exception as e:
            import traceback
            traceback.print_exc()
            failures.append((name, e))
        timing[name] = round(time.time() - t0, 1)
    guarded_stream("symbol_order", lambda: stream_symbol_order(chk, cases, status, bins))
    guarded_stream("fresh", lambda: stream_fresh(chk, cases, status, real, k))
    guarded_stream("cli", lambda: stream_cli(chk, bins, real, K, k))
    for i in (0, len(cases) // 3, len(cases) // 2, len(cases) - 1):
        c = cases[i]
        chk.sample({"tag": c.tag, "corpus": c.corpus, "roots": c.roots, "options": [c.budget, c.stat, c.matching], "status": status[i],
                    "main": c.files[c.roots[0]].decode("utf-8", "replace")[:400] if c.roots[0] in c.files else None})
    shutil.rmtree(SCRATCH, ignore_errors=True)
    for name, e in failures:
        chk.violation("check infrastructure failure in stream %s: %r" % (name, e), {"kind": "infrastructure", "stream": name, "error": repr(e)}, found=False)
    if scan_failure is not None:
        chk.violation("the C10 inventory scan cannot read the current source: %r" % (scan_failure,), {"kind": "inventory", "error": repr(scan_failure)}, found=False)
    chk.assumptions = vlib.TRUSTED_BASE + [
        "C10 is partial by nature: PROVED = each hash-container iteration site inventoried in the current source computes a result that does not depend on the iteration order (Props/C10.v), "
        "the inventory is complete with respect to the text-level scan (every iteration / hand-over / ambient-state use found by tools/translate_c10.py is in the hand-written covered / allowed lists, "
        "with the hash of the code it was read from); OBSERVED = equality of results across fresh processes, threads and in-process histories on the streams of this run",
        "tools/translate_c10.py: a lexer + regex scan of src/**/*.rs (src/test, src/webasm and the build script excluded); a hash container reached through a type alias, a macro, a generic "
        "parameter or a dependency crate is invisible to it (type aliases and renaming imports of HashMap/HashSet make it fail loudly)",
        "std::collections::HashMap/HashSet identified with finite maps whose point operations (get/insert/remove/contains/len/entry) do not depend on the seed; only iteration exposes the order",
        "Rust's sort_by_key identified with a stable sort (Model/HashOrder.v uses insertion sort); num-bigint, getopts and the operating system are deterministic functions of their inputs",
    ]


def replay(chk, rep):
    r = rep.get("replay", rep)
    bins = vlib.harness_build(("debug",), bins=["determ"])
    exe = bins["debug"] + "/determ"
    kind = r.get("kind")
    if kind == "in-process" and "format" in r:
        line = "F\tD\t8:16\t%s" % vlib.hx(r["format"])
        print("format string %r\nrecorded: %s" % (r["format"], r.get("observations")))
        for i in range(3):
            print("now (fresh harness process %d): %s" % (i, vlib.run_lines([exe], [line], shards=1)[0]))
    elif kind == "in-process":
        files = {n: bytes.fromhex(h) for n, h in r.get("files_hex", {}).items()}
        if r.get("corpus"):
            for cc in corpus_cases():
                if cc.corpus == r["corpus"]:
                    for n, dd in cc.files.items():
                        files.setdefault(n, dd)
        c = Case(r.get("tag", "replay"), r["roots"], files, r.get("budget", 10), r.get("static", 1), r.get("matching", 1))
        print("program %r (budget %s static %s matching %s)\nrecorded: %s" % (r["roots"], c.budget, c.stat, c.matching, r.get("observations")))
        for i in range(3):
            print("now (fresh harness process %d): %s" % (i, vlib.run_lines([exe], [c.line("D", "8:16")], shards=1)[0]))
        texts = diff_texts(exe, c.line("V", "1:0"))
        if len(texts) >= 2:
            print("two canonical texts differ: %s" % json.dumps(first_difference(texts[0], texts[1]), indent=1))
    elif kind == "fresh-process":
        real = vlib.customasm_build(("debug",))["debug"]
        argv = r["argv"]
        if "files_hex" in r:
            files = {n: bytes.fromhex(h) for n, h in r["files_hex"].items()}
            c = Case("replay", r["roots"], files)
            root = os.path.join(SCRATCH, "replay")
            materialise(c, root)
            outs = run_fresh(real, argv, root, snapshot(root, {}), 8)
            shutil.rmtree(root, ignore_errors=True)
        else:
            from props import c18
            outs = [c18.run_real(real, ["customasm"] + argv, os.path.join(SCRATCH, "replay")) for _ in range(8)]
        distinct = []
        for o in outs:
            if o not in distinct:
                distinct.append(o)
        print("customasm %r: %d distinct behaviours in 8 fresh processes" % (argv, len(distinct)))
        for o in distinct[:3]:
            print(json.dumps(show_run(o), indent=1))
        print("recorded: %s vs %s" % (json.dumps(r.get("run_0"))[:600], json.dumps([v for kk, v in r.items() if kk.startswith("run_") and kk != "run_0"])[:600]))
    else:
        print(json.dumps(r, indent=1)[:4000])
    return 0
