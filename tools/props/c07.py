"""C07 — instruction matching ignores case, extra spacing, comments and rule order.
Theorems: coq/Props/C07.v.  Streams (G-render): each size-static program is rendered several ways from its STRUCTURE
(rule pieces + argument texts): recased mnemonics/literal operands, blanks/tabs/block comments inserted at token
boundaries, trailing comments, rules permuted and re-partitioned into several blocks, labels consistently renamed;
the implementation must give the base rendering's result for every variant (spec, metamorphic), and each variant's
result must equal the extracted model's.  Plus literal-versus-expression overlaps built on purpose."""
import vlib, asm_gen, asm_streams

RULE = ("size-static G-isa x G-prog x G-render (recase / blanks, tabs and block comments at token boundaries / trailing comments / "
        "rule permutation and re-partitioning / injective label renaming), budget 30: variant result = base result on the implementation, "
        "implementation = extracted model on every rendering; literal-vs-expression overlap family; "
        "non-trivial = distinct (program, variant) whose base rendering assembles")

VARIANTS = ["upper", "mixed", "space", "comments", "order", "blocks", "rename", "all"]


def make_variant(p, kind, rng):
    style, rename, order, blocks = None, None, None, 1
    if kind in ("upper", "mixed"):
        style = {"case": kind}
    if kind == "space":
        style = {"space": True}
    if kind == "comments":
        style = {"space": True, "comments": True, "trailing": True}
    if kind in ("order", "all"):
        order = rng.shuffle(list(range(len(p.isa.rules))))
    if kind in ("blocks", "all"):
        blocks = rng.range(2, 3)
        order = order or list(range(len(p.isa.rules)))
    if kind in ("rename", "all"):
        # (no name contains `h`: in an ISA with a glued suffix letter, `mov {x}h`, the operand `thetah` is not the
        # operand `l0h` renamed -- the expression stops at the first `h` -- so such a renaming is not meaning-preserving)
        pool = rng.shuffle(["alfa", "beta_1", "Gamma", "delta9", "_eps", "zed", "eta", "tau", "iota", "kappa", "mu2", "nu", "xi", "pi_0", "sigma", "omega"])
        rename = {n: pool[i] for i, n in enumerate(p.names)}
    if kind == "all":
        style = {"case": "mixed", "space": True, "comments": True, "trailing": True}
    text, ml = p.variant(style, rng, rename, order, blocks)
    return text, ml, rename


def unrename(sig, rename):
    if not rename or sig[2] is None:
        return sig
    inv = {v: k for k, v in rename.items()}
    syms = ";".join("%s=%s" % (inv.get(kv.split("=")[0], kv.split("=")[0]), kv.split("=", 1)[1]) for kv in sig[2].split(";") if kv)
    return (sig[0], sig[1], syms)


def overlap_case(rng):
    """a rule that spells an operand literally must win over one reading the same text as an expression"""
    reg = rng.choice(["a", "sp", "r0", "hl"])
    m = rng.choice(["ld", "mov", "add"])
    lit, gen = rng.below(256), rng.below(256)
    order = rng.chance(0.5)
    if rng.chance(0.4):
        # the literal operand lies inside one token that the other rule starts literally and finishes with a glued parameter
        n = rng.choice([1, 7, 15])
        rules = ["%s r%d => 0x%02x" % (m, n, lit), rng.choice(["%s r{n: u4} => 0x%x @ n", "%s r{n} => 0x%x @ n`4"]) % (m, gen & 15)]
        if order:
            rules.reverse()
        text = "#ruledef\n{\n    %s\n}\n%s %s%d\n" % ("\n    ".join(rules), m, "R" if rng.chance(0.3) else "r", n)
        return text, "".join("1" if (lit >> (7 - i)) & 1 else "0" for i in range(8))
    if rng.chance(0.3):
        # several operands typed by ONE sub-rule set that offers register names next to an expression alternative, and
        # a constant named like a register: the literal alternative wins in EVERY operand position
        regs = rng.shuffle(["a", "b", "hl", "sp"])[:rng.range(2, 3)]
        codes = {r: rng.below(16) for r in regs}
        alts = ["%s => 0x0 @ 0x%x`4" % (r, codes[r]) for r in regs] + ["{v: u4} => 0x1 @ v"]
        if order:
            alts.reverse()
        nops = rng.range(2, 3)
        pn = ["d", "s", "t"][:nops]
        clash = rng.choice(regs)
        ops = [rng.choice([clash, clash, rng.choice(regs), str(rng.below(16))]) for _ in range(nops)]
        if clash not in ops[:-1]:
            ops[0] = clash
        bits = "".join(format(lit >> (7 - i) & 1, "d") for i in range(8))
        for o in ops:
            bits += ("0000" + format(codes[o], "04b")) if o in codes else ("0001" + format(int(o), "04b"))
        text = "#subruledef operand\n{\n    %s\n}\n#ruledef\n{\n    %s %s => 0x%02x @ %s\n}\n%s = %d\n%s %s\n" % (
            "\n    ".join(alts), m, ", ".join("{%s: operand}" % q for q in pn), lit, " @ ".join(pn), clash, rng.below(16),
            m, ", ".join(o.upper() if (o in codes and rng.chance(0.2)) else o for o in ops))
        return text, bits
    if rng.chance(0.35):
        # operand-first patterns: a rule that STARTS with a literal register (`r0 <- {value}`) next to one that starts with
        # a sub-rule parameter offering the same register names (`{d: reg} <- {s: reg}`); on `r0 <- r1` both apply, the
        # second spells `r1` literally (more literal characters in all) and must win -- also when a constant named `r1`
        # exists, which makes the other reading assemble silently.  The two rules live under different leading prefixes.
        regs = rng.shuffle(["r0", "r1", "r2", "a", "sp"])[:rng.range(2, 4)]
        codes = {r: rng.below(16) for r in regs}
        infix = rng.choice(["<-", "->", ",", "+"])   # (not `=` / `:=`: `r0 = r1` declares a constant, `a :` a label)
        first, second = regs[0], rng.choice(regs[1:])
        subs = ["%s => 0x%x" % (r, codes[r]) for r in regs]
        rules = ["%s %s {value: u8} => 0x%02x @ value" % (first, infix, gen),
                 "{d: reg} %s {s: reg} => 0x%02x @ d`4 @ s`4" % (infix, lit)]
        if order:
            rules.reverse(); subs.reverse()
        const = "%s = %d\n" % (second, rng.below(200)) if rng.chance(0.6) else ""
        ln = "%s %s %s" % (first.upper() if rng.chance(0.2) else first, infix if infix == "," else rng.choice([infix, " " + infix + "  "]), second)
        text = "#subruledef reg\n{\n    %s\n}\n#ruledef\n{\n    %s\n}\n%s%s\n" % ("\n    ".join(subs), "\n    ".join(rules), const, ln)
        return text, format(lit, "08b") + format(codes[first], "04b") + format(codes[second], "04b")
    rules = ["%s %s => 0x%02x" % (m, reg, lit), "%s {x} => 0x%02x @ x`8" % (m, gen)]
    if order:
        rules.reverse()
    text = "#ruledef\n{\n    %s\n}\n%s = %d\n%s %s\n" % ("\n    ".join(rules), reg, rng.below(200), m, reg.upper() if rng.chance(0.3) else reg)
    return text, "".join("1" if (lit >> (7 - i)) & 1 else "0" for i in range(8))


def dotted_case(rng):
    """(plain text, spaced text) of one program whose operands are dotted paths to nested labels"""
    import re
    tops = rng.shuffle(["start", "table", "main", "data0"])[:rng.range(2, 3)]
    subs = {t: rng.shuffle(["loop", "first", "second", "end"])[:rng.range(1, 3)] for t in tops}
    isa = "#ruledef\n{\n    jmp {addr: u8} => 0x10 @ addr\n    ld {r: u4}, {addr: u8} => 0x2 @ r @ addr\n}\n"
    lines = []
    for t in tops:
        lines.append(("label", t + ":"))
        for sname in subs[t]:
            for _ in range(rng.range(0, 2)):
                tgt_top = rng.choice(tops)
                path = rng.choice([tgt_top + "." + rng.choice(subs[tgt_top]), "." + rng.choice(subs[t]), tgt_top, "%s.%s + 1" % (tgt_top, rng.choice(subs[tgt_top]))])
                lines.append(("instr", ["jmp", path]) if rng.chance(0.6) else ("instr", ["ld", str(rng.below(16)) + ",", path]))
            lines.append(("label", "." + sname + ":"))
            if rng.chance(0.5):
                lines.append(("data", "#d8 0x%02x" % rng.below(256)))

    def gap():
        return rng.weighted([(" ", 30), ("  ", 15), ("\t", 15), (" ;* c *; ", 15), (";* c *;", 10), ("", 15)])

    def spaced(expr):
        toks = re.findall(r"[A-Za-z_][A-Za-z0-9_]*|\d+|\S", expr)
        out = toks[0]
        for a, b in zip(toks, toks[1:]):
            g = gap()
            if g == "" and (a[-1].isalnum() or a[-1] == "_") and (b[0].isalnum() or b[0] == "_"):
                g = " "
            out += g + b
        return out
    plain, var = [], []
    for k, l in lines:
        if k == "instr":
            plain.append("    " + " ".join(l))
            var.append("    " + l[0] + rng.choice([" ", "\t", "  ", " ;* m *; "]) + " ".join(spaced(x) if i == len(l) - 2 else x for i, x in enumerate(l[1:])) + rng.choice(["", " ; trailing", "\t"]))
        else:
            plain.append(l); var.append(l)
    return isa + "\n".join(plain) + "\n", isa + "\n".join(var) + "\n"


def run(chk):
    chk.rule = RULE
    chk.prove()
    R = asm_streams.Runner(("debug",))
    quick = chk.tier == "quick"
    n = 700 if quick else 7000
    rng = chk.rng.fork("c07")
    progs, icases, mlines, meta = [], [], [], []
    for i in range(n):
        p = asm_gen.gen_unsized_prog(rng) if rng.chance(0.08) else asm_gen.gen_prog(rng, size_static=True, collide=False, boundary=rng.chance(0.2))
        s, m = rng.chance(0.7), rng.chance(0.7)
        base_text, base_ml = p.variant()
        icases.append((base_text, 30, s, m)); mlines.append(base_ml(30, m)); meta.append((i, "base", None))
        for kind in VARIANTS:
            t, ml, ren = make_variant(p, kind, rng)
            icases.append((t, 30, s, m)); mlines.append(ml(30, m)); meta.append((i, kind, ren))
        progs.append(p)
    ia = R.impl(icases)
    ma = vlib.run_lines([R.model], mlines)
    per = 1 + len(VARIANTS)
    dist = {"base_ok": 0, "base_err": 0}
    for k in VARIANTS:
        dist["variant_" + k] = 0
    ndis = 0
    for pi in range(n):
        base = asm_gen.canon_impl(ia[pi * per])
        if base[0] not in ("OK", "ERR"):
            chk.violation("implementation crashed on the base rendering", {"kind": "render", "program": icases[pi * per][0], "impl": ia[pi * per][:500]})
            continue
        dist["base_ok" if base[0] == "OK" else "base_err"] += 1
        for j in range(per):
            idx = pi * per + j
            _, kind, ren = meta[idx]
            ci, cm = asm_gen.canon_impl(ia[idx]), asm_gen.canon_model(ma[idx])
            rep = {"kind": "render", "variant": kind, "base_program": icases[pi * per][0], "program": icases[idx][0],
                   "static_opt": icases[idx][2], "matcher_opt": icases[idx][3], "base": str(asm_streams.sig(base))[:600], "impl": ia[idx][:1500], "model": ma[idx][:1500]}
            if ci[0] not in ("OK", "ERR"):
                chk.violation("implementation crashed on a %s rendering" % kind, rep)
                break
            if j > 0:
                dist["variant_" + kind] += 1
                if base[0] == "OK":
                    chk.nontriv((icases[pi * per][0], kind))
                if unrename(asm_streams.sig(ci), ren) != asm_streams.sig(base):
                    chk.violation("the %s rendering of a program is assembled differently from the base rendering" % kind, rep)
                    break
            if asm_streams.sig(ci) != asm_streams.sig(cm):
                ndis += 1
                chk.violation("model/implementation correspondence broken on a %s rendering: impl %s model %s" % (kind, str(ci)[:160], str(cm)[:160]),
                              dict(rep, theorems=["C07_literal_priority", "C07_pattern_lowercase"]), found=False)
                break
        if pi % 150 == 1:
            chk.sample({"base": icases[pi * per][0], "all-variant": icases[pi * per + per - 1][0]})
    chk.count("renderings", len(icases), **dist)
    # literal-versus-expression overlaps
    oc = [overlap_case(rng) for _ in range(300 if quick else 3000)]
    oa = R.impl([(t, 10, rng.chance(0.5), rng.chance(0.5)) for (t, _) in oc])
    for (t, want), a in zip(oc, oa):
        ci = asm_gen.canon_impl(a)
        chk.nontriv(t)
        if ci[0] != "OK" or ci[1] != want:
            chk.violation("a rule spelling an operand literally did not take precedence over the expression rule",
                          {"kind": "overlap", "program": t, "impl": a[:500], "expected_bits": want})
    chk.count("literal_overlap", len(oc))
    # blanks, tabs and block comments between the tokens of an OPERAND: nested labels referred to by dotted paths
    dc = [dotted_case(rng) for _ in range(150 if quick else 1500)]
    da = R.impl([(t, 10, True, True) for pair in dc for t in pair])
    for i, (b, v) in enumerate(dc):
        cb, cv = asm_gen.canon_impl(da[2 * i]), asm_gen.canon_impl(da[2 * i + 1])
        if cb[0] == "OK":
            chk.nontriv(b)
        if asm_streams.sig(cb) != asm_streams.sig(cv):
            chk.violation("blanks / comments between the tokens of an operand (dotted label path) change how the line is assembled",
                          {"kind": "render", "variant": "operand-space", "base_program": b, "program": v, "base": str(asm_streams.sig(cb))[:600], "impl": da[2 * i + 1][:1500]})
    chk.count("operand_token_spacing", len(dc))
    chk.cov["traces_validated_against_impl"] = len(icases) + len(oc)
    chk.cov["disagreements_checked"] = ndis


def replay(chk, rep):
    R = asm_streams.Runner(("debug",))
    r = rep.get("replay", rep)
    cases = [(r["program"], 30, r.get("static_opt", True), r.get("matcher_opt", True))]
    if "base_program" in r:
        cases.append((r["base_program"], 30, r.get("static_opt", True), r.get("matcher_opt", True)))
    out = R.impl(cases)
    print("variant %s:\n%s\nimplementation now: %s" % (r.get("variant"), r["program"], out[0][:600]))
    if len(out) > 1:
        print("base rendering:\n%s\nimplementation now: %s" % (r["base_program"], out[1][:600]))
    return 0
