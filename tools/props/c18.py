"""C18 — the command line does what the usage text says.
Theorems: coq/Props/C18.v.  Streams (G-cli): format strings (parse_output_format directly), input names (derived
file names through driver::drive on the crate's mock file server), whole command lines with up to 4 output groups
and every option spelling (drive, in process, and the real customasm binary in a scratch directory)."""
import os, shutil, subprocess, json, re
from concurrent.futures import ThreadPoolExecutor
import vlib, translate_cli, cli_gen, cli_ref

RULE = ("G-cli: (1) format strings = every name of the usage text and of the driver x every parameter x its whole value domain "
        "(base 0..130, group 0..2^64 and beyond, addr_unit 0..64, odd spellings, 1-part / 3-part parameters, duplicates, unknown "
        "parameters in every order, repeated to expose order dependence) + random compositions; (2) input names with and without "
        "extensions, directories, dots, backslashes x formats with each extension; (3) command lines of 1..4 output groups "
        "(-f/-o/-p present or not, valid and invalid formats) with the global options (quiet, iters, defines, colour, help, version, "
        "debug switches) in any group and position, every spelling (short/long, attached/detached/=, flag clusters), 0..2 inputs, "
        "defines (every spelling, before/after the input, in a later group) aimed at constants whose declared default is a literal, a "
        "forward label, a later constant, an address difference or the current address, the constant being used in the output, "
        "defines of every radix and sign x size-sensitive consumers (#dN, #d, @, sizeof, u8/s8 parameters), "
        "the real binary also in directories with a history (a longer stale file at every name the command line writes; repeated "
        "invocations whose outputs shrink; two groups naming one file), each written file compared byte for byte with what the same "
        "group hands to the mock file server, "
        "run through driver::drive on the mock file server and through the real binary.  non-trivial = distinct format string with a "
        "parameter or an unknown name; distinct input name; distinct command line with >= 2 groups or a derived name or a global "
        "option outside the first group")

SCRATCH = os.path.join(vlib.CACHE, "c18")

# the reading of the usage text / property text as an executable reference: tools/cli_ref.py (mirrors Spec/Cli.v)
DOC_CTOR = cli_ref.DOC_CTOR
DOC_EXT = cli_ref.DOC_EXT

PROGRAMS = {
    "good": "X = 0\nY = 0\n#d8 1, 2\n",
    "iter": "#ruledef\n{\n    jmp {a} => { assert(a < 4), 0x11 @ a`8 }\n    jmp {a} => 0x22 @ a`16\n}\nX = 0\nY = 0\njmp l1\njmp l2\njmp l1\n#res 1\nl1:\n#res 2\nl2:\n",
    "err": "X = 0\nY = 0\n#d8 undefined_symbol\n",
    # constants X and Y are USED in the output (bytes 0 and 1) and their declared defaults are not literals: a forward label,
    # a later constant, a difference of addresses, the current address.  A define must replace them all the same.
    "dlabel": "#d8 X, Y\nX = lbl\nY = 2\nlbl:\n#d8 0xee\n",
    "dfwd": "#d8 X, Y\nX = K + 1\nY = l2 - l1\nK = 6\nl1:\n#d8 0xaa, 0xbb\nl2:\n",
    "dpc": "#d8 X, Y\nX = $ + 0x10\n#d8 0xcc\nY = here * 2\nhere:\n",
}
DEFPROGS = ("dlabel", "dfwd", "dpc")
# which program a given input name holds in the generated file systems
INPUT_FILES = {"main.asm": "good", "dir/main.asm": "good", "noext": "good", "a.b.asm": "good", "main.bin": "good", "main.txt": "good",
               "iter.asm": "iter", "err.asm": "err", "sub/iter.asm": "iter",
               "dlabel.asm": "dlabel", "dfwd.asm": "dfwd", "sub/dpc.asm": "dpc",
               "proj.v2/main": "good", "./prog": "good", ".hidden": "good", "a.b/c.d/e": "good", "proj.v2/main.asm": "good"}
CMD_INPUTS = ["main.asm"] * 6 + ["dir/main.asm", "noext", "a.b.asm", "main.bin", "main.txt", "iter.asm", "iter.asm", "err.asm",
                                  "missing.asm", "sub/iter.asm", "dlabel.asm", "dlabel.asm", "dfwd.asm", "dfwd.asm", "sub/dpc.asm", "sub/dpc.asm", "proj.v2/main", "./prog", ".hidden", "a.b/c.d/e", "proj.v2/main.asm"]
# format strings just outside each documented set, run as whole command lines too (rejected before assembling, no crash)
BOUNDARY_FORMATS = ["annotated,base:0", "annotated,base:1", "annotated,base:3", "annotated,base:129", "annotated,base:256",
                    "annotated,group:0", "annotated,group:65536", "tcgame,base:0", "tcgame,base:1", "tcgame,base:4", "tcgame,base:8",
                    "tcgame,group:0", "tcgame,group:65536", "intelhex,addr_unit:0", "intelhex,addr_unit:24", "intelhex,addr_unit:64",
                    "intelhex,addr_unit:4", "annotated,base:16,group:0", "annotated,base:1,group:1"]


def setup():
    os.makedirs(SCRATCH, exist_ok=True)
    tables_v = open(os.path.join(vlib.COQ, "Model", "CliTables.v")).read()
    if "Gen.GeneratedCli" in vlib.strip_comments(tables_v):
        translate_cli.write_standalone(vlib.REPO, os.path.join(vlib.COQ, "Gen", "GeneratedCli.v"))


def capture_cmd(exe):
    """run a harness binary with fd 1 redirected to a scratch file (what `drive` prints) and answers on fd 3"""
    os.makedirs(SCRATCH, exist_ok=True)
    return ["sh", "-c", 'f=$(mktemp "%s/out.XXXXXX") && VH_STDOUT="$f" exec "$0" 3>&1 1>"$f"' % SCRATCH, exe]


def parse_answer(a):
    """C answer -> dict"""
    f = a.split("\t")
    d = {"status": f[0], "raw": a}
    for x in f[1:]:
        k, _, v = x.partition("=")
        d[k] = v
    d["writes"] = [tuple(w.split(":")) for w in d.get("W", "").split(";")] if d.get("W") else []
    d["printed"] = bytes.fromhex(d.get("S", "")) if re.fullmatch(r"[0-9a-f]*", d.get("S", "")) else b"?"
    d["probes"] = d.get("P", "").split(";") if "P" in d else []
    return d


def files_field(names):
    ents = []
    for n in names:
        if n in INPUT_FILES:
            ents.append("%s=%s" % (vlib.hx(n), vlib.hx(PROGRAMS[INPUT_FILES[n]])))
    return ";".join(ents)


def fmt_from_model(words):
    """'Annotated 10 2' (hex fields) -> ('Annotated', (16, 2))"""
    return (words[0], tuple(int(x, 16) for x in words[1:]))


def big_group(fmt):
    return any(int(x) > 65535 for x in re.findall(r"group:\+?(\d+)", fmt or ""))


def known_classes():
    return {f["class"]: f for f in vlib.known_findings() if f["property"] == "C18" and f["status"] == "known"}


class Ctx:
    pass


def build(chk):
    c = Ctx()
    # until tools/translate.py emits the cli_ tables into Gen/Generated.v (then Model/CliTables.v points there), this
    # module writes them to Gen/GeneratedCli.v itself at the start of every run (only when the content changed)
    tables_v = open(os.path.join(vlib.COQ, "Model", "CliTables.v")).read()
    if "Gen.GeneratedCli" in vlib.strip_comments(tables_v):
        translate_cli.write_standalone(vlib.REPO, os.path.join(vlib.COQ, "Gen", "GeneratedCli.v"))
    c.degraded = None
    try:
        c.tables = translate_cli.tables(vlib.REPO)
    except Exception as e:
        # the DRIVER side can no longer be read: the tie is broken (reported), but the usage text and the property text
        # still give an oracle for the implementation's behaviour -- the streams continue with cli_ref alone
        usage = translate_cli.usage_tables(vlib.REPO)
        c.degraded = repr(e)
        c.tables = {"usage": usage, "driver": {"arms": cli_ref.usage_arms(usage)}, "undocumented_names": [], "documented_without_arm": []}
    return c


def build_runners(c, profiles=("debug", "release")):
    c.model = None
    try:
        vlib.extraction("ExCli")
        c.model = vlib.ocaml_build("cli_driver", ["cli_model"])
    except Exception as e:
        if not c.degraded:              # the tables were read but the model does not build: also a broken tie
            c.degraded = "model does not build: " + repr(e)[:600]
    c.bins = vlib.harness_build(profiles)
    c.real = vlib.customasm_build(("debug",))
    return c


def report(chk, c, what, rep, cls=None, found=True):
    if cls and cls in c.known:
        chk.known(c.known[cls]["id"], "class=%s: %s" % (cls, what))
    else:
        if cls:
            rep["class"] = cls
            n = chk.cov.setdefault("violations_by_class", {})
            n[cls] = n.get(cls, 0) + 1
            if n[cls] > 1:           # one replay per class; the count is kept in the evidence
                return
        else:
            key = "%s/%s" % (rep.get("kind"), "found" if found else "tie")
            n = chk.cov.setdefault("violations_by_kind", {})
            n[key] = n.get(key, 0) + 1
            if n[key] > 2:           # two replays per kind of unclassified violation; the count is kept in the evidence
                return
        chk.violation(what, rep, found=found)


# ================================================================================================ stream 1: format strings
def stream_formats(chk, c):
    t = c.tables
    cases = cli_gen.fmt_cases(chk.rng.fork("fmt"), t, chk.tier == "quick")
    lines_impl = ["F\t%s\t%d" % (vlib.hx(s), rep) for s, rep, _ in cases]
    lines_model = ["F\t%s" % vlib.hx(s) for s, _, _ in cases]
    res = {p: vlib.run_lines([c.bins[p] + "/cli"], lines_impl) for p in c.bins}
    mres = vlib.run_lines([c.model], lines_model) if c.model else [None] * len(cases)
    usage_names = {e["name"]: e for e in t["usage"]["formats"]}
    dist = {"accepted": 0, "rejected": 0, "usage_entries": 0}

    def show(f):
        return "S -" if f is None else "S " + " ".join([f[0]] + ["%x" % x for x in f[1]])
    ndis = 0
    for idx, (s, rep, tag) in enumerate(cases):
        impl = res["debug"][idx]
        if "release" in res and res["release"][idx] != impl and not impl.startswith("NONDET") and not res["release"][idx].startswith("NONDET"):
            report(chk, c, "debug and release builds disagree on -f %r" % s, {"kind": "profile-divergence", "stream": "fmt", "format": s, "debug": impl, "release": res["release"][idx]})
            continue
        spec = show(cli_ref.spec_format(t["usage"], s))       # usage text + documented sets (tools/cli_ref.py)
        model = None
        if mres[idx] is not None:
            mparts = mres[idx].split("\t")
            model, xspec = mparts[0], (mparts[1] if len(mparts) > 1 else "?")
            if not model.startswith("MODELEXN") and model not in ("?", "CRASH") and xspec != spec:
                report(chk, c, "the Python reference (%s) and the extracted Coq spec (%s) disagree on -f %r" % (spec, xspec, s),
                       {"kind": "format", "stream": "fmt", "format": s, "spec": spec, "extracted_spec": xspec}, found=False)
                continue
        rp = {"kind": "format", "stream": "fmt", "format": s, "impl": impl, "model": model, "spec": spec}
        has_param = "," in s
        if has_param or s.split(",")[0] not in usage_names:
            chk.nontriv(("fmt", s))
        if model is not None and (model.startswith("MODELEXN") or model in ("?", "CRASH")):
            report(chk, c, "model runner failed on -f %r: %s" % (s, model), rp, found=False)
            continue
        # --- the spec predicates on the implementation's answer
        if impl.startswith("NONDET"):
            report(chk, c, "-f %r: the same format string is answered differently when asked again: %s" % (s, impl), rp, cls="leftover_param_hash_order")
            continue
        if impl in ("PANIC", "CRASH"):
            report(chk, c, "-f %r: the format parser crashed" % s, rp)
            continue
        if not (impl.startswith("OK ") or impl.startswith("ERR ")):
            report(chk, c, "-f %r: inconsistent answer %s" % (s, impl), rp)
            continue
        accepted = impl.startswith("OK ")
        dist["accepted" if accepted else "rejected"] += 1
        spec_ok = spec != "S -"
        if spec_ok and impl != "OK " + spec[2:]:
            report(chk, c, "-f %r is a documented format string (%s) but the implementation answers %s" % (s, spec[2:], impl), rp)
            continue
        if not spec_ok and accepted:
            cls = None
            if big_group(s):
                cls = "group_above_65535"
            report(chk, c, "-f %r is outside the documented names/parameters/value sets but was accepted as %s" % (s, impl[3:]), rp, cls=cls)
            continue
        # --- the usage text itself (independent of the extracted spec): name -> formatter, defaults as documented
        if tag == "usage":
            dist["usage_entries"] += 1
            name = s.split(",")[0]
            e = usage_names[name]
            given = dict((p.split(":")[0], int(p.split(":")[1])) for p in s.split(",")[1:])
            base = e["same_as"][1] if e["same_as"] else e["params"]
            want = (DOC_CTOR.get(name), tuple(given.get(p, dflt) for p, dflt in base))
            got = fmt_from_model(impl[3:].split(" ")) if accepted else None
            if got != want:
                report(chk, c, "usage text entry %r should select %r, the implementation answers %s" % (s, want, impl), rp)
                continue
        # --- correspondence with the model (which parameter the diagnostic names included)
        if model is not None and impl != model and not (impl.startswith("ERR other") and model.startswith("ERR ")):
            ndis += 1
            cls = "leftover_param_hash_order" if (impl.startswith("ERR param") and model.startswith("ERR param")) else None
            report(chk, c, "model/implementation correspondence broken for -f %r: impl %s, model %s" % (s, impl, model),
                   dict(rp, theorems=["C18_usage_accepted", "C18_unknown_rejected"]), cls=cls, found=(cls is not None))
        if idx % 2500 == 7:
            chk.sample({"format": s, "impl": impl, "model": model, "spec": spec})
    chk.count("format-strings", len(cases), **dist)
    chk.cov["disagreements_checked"] += ndis
    chk.cov["traces_validated_against_impl"] += len(cases)
    # the extracted obligations, evaluated once more outside Coq (so that a broken proof still yields a concrete entry)
    u = vlib.run_lines([c.model], ["U"], shards=1)[0] if c.model else ""
    if "F" in u:
        ents = [e["text"] for e in t["usage"]["formats"]] + t["usage"]["examples"]
        flags = u.replace(" ", "")
        bad = [ents[i] for i in range(min(len(ents), len(flags))) if flags[i] == "F"]
        report(chk, c, "usage text entries not accepted by the model of the driver as documented: %r" % bad, {"kind": "usage-table", "entries": bad, "flags": u})


# ================================================================================================ stream 2: input names
def expected_stdout(quiet, inputs, actions, probes, iters):
    """what assemble_with_command prints after the version line (bytes)"""
    out = b""
    if not quiet:
        for i in inputs:
            out += ("assembling `%s`...\n" % i).encode()
    for a, pr in zip(actions, probes):
        if a[0] == "P":
            if not quiet:
                out += b"\n"
            out += bytes.fromhex(pr).decode("utf-8", "replace").encode() + b"\n"
        elif a[0] == "W" and not quiet:
            out += ("writing `%s`...\n" % a[1]).encode()
    if not quiet:
        out += ("resolved in %d iteration%s\n" % (iters, "" if iters == 1 else "s")).encode()
    return out


def strip_version(printed):
    i = printed.find(b"\n")
    return printed[i + 1:] if i >= 0 else b""


def stream_names(chk, c):
    names = cli_gen.name_cases(chk.rng.fork("names"), chk.tier == "quick")
    fmts = [(None, "Binary"), ("binary", "Binary"), ("annotated", "Annotated"), ("mesen-mlb", "SymbolsMesenMlb"), ("symbols", "Symbols"), ("hexstr", "HexStr")]
    cases = []
    for n in names:
        for f, ctor in fmts:
            cases.append((n, f, ctor))
    model_lines = ["N\t%s\t%s" % (ctor, vlib.hx(n)) for n, f, ctor in cases]
    impl_lines = []
    for n, f, ctor in cases:
        argv = ["customasm", "-q"] + (["-f", f] if f else []) + [n]
        impl_lines.append("C\t%s\t%s=%s\t" % (";".join(vlib.hx(a) for a in argv), vlib.hx(n), vlib.hx(PROGRAMS["good"])))
    mres = vlib.run_lines([c.model], model_lines) if c.model else [None] * len(cases)
    res = vlib.run_lines(capture_cmd(c.bins["debug"] + "/cli"), impl_lines)
    dist = {"derived": 0, "refused": 0}
    ndis = 0
    for idx, (n, f, ctor) in enumerate(cases):
        a = parse_answer(res[idx])
        # the property text: the input with only its file-name extension replaced, same directory, never the input itself
        want, has_file_name = cli_ref.derive(n, ctor)
        want = "ERR" if want is None else "OK " + vlib.hx(want)
        model = None
        if mres[idx] is not None:
            model, _, fn = mres[idx].partition("\t")
            if model != want or (fn != "FN0") != has_file_name:
                report(chk, c, "the Python reference (%s) and the Coq model (%s) disagree on the name derived from %r (%s)" % (want, mres[idx], n, f),
                       {"kind": "derived-name", "stream": "names", "input": n, "format": f, "reference": want, "model": mres[idx]}, found=False)
                continue
        dist["without_file_name"] = dist.get("without_file_name", 0) + (0 if has_file_name else 1)
        rp = {"kind": "derived-name", "stream": "names", "input": n, "format": f, "impl": a["raw"][:400], "model": model, "expected": want}
        chk.nontriv(("name", n))
        ext = DOC_EXT.get(ctor, "txt")
        if a["status"] == "OK" and len(a["writes"]) == 1:
            got = bytes.fromhex(a["writes"][0][0]).decode("utf-8", "replace")
            dist["derived"] += 1
            # spec predicate: the derived name is not the input name and carries the format's extension (whenever the
            # input has a file name in the sense of std::path; a path ending in `..` or `/` alone names no file)
            if got == n or (has_file_name and not got.endswith("." + ext)):
                report(chk, c, "input %r, format %s: derived output name %r (must end in .%s and differ from the input)" % (n, f, got, ext), rp)
                continue
            impl = "OK " + a["writes"][0][0]
        elif a["status"] == "ERR" and not a["writes"]:
            dist["refused"] += 1
            impl = "ERR"
        else:
            report(chk, c, "input %r, format %s: neither one file nor a refusal: %s" % (n, f, a["raw"][:200]), rp)
            continue
        if has_file_name and impl != want:
            exp = "a refusal (it would be the input itself)" if want == "ERR" else repr(vlib.unhx(want[3:]))
            got = "refused" if impl == "ERR" else repr(vlib.unhx(impl[3:]))
            report(chk, c, "input %r, format %s: output name %s, but the first input with only its extension replaced (same directory) is %s" % (
                n, f or "(default)", got, exp), rp)
            continue
        if model is not None and impl != model:
            ndis += 1
            report(chk, c, "model/implementation correspondence broken for the name derived from %r (%s): impl %s, model %s" % (n, f, impl, model),
                   dict(rp, theorems=["C18_derived_name"]), found=False)
        if idx % 700 == 3:
            chk.sample({"input": n, "format": f, "impl": impl, "model": model})
    chk.count("input-names", len(cases), **dist)
    chk.cov["disagreements_checked"] += ndis
    chk.cov["traces_validated_against_impl"] += len(cases)


# ================================================================================================ stream 3: command lines
def calibrate(c):
    """the assembler is an oracle for C18: which budgets let each fixed program succeed (measured on the implementation)"""
    lines, keys = [], []
    for prog in PROGRAMS:
        for mask in (("00", "10", "01", "11") if prog in DEFPROGS else ("",)):     # is X / Y given by a define
            for flags in ("11", "01", "10", "00"):          # optimize_statically_known, optimize_instruction_matching
                for b in list(range(1, 8)) + [10]:
                    argv = ["customasm", "-q", "-p", "-t%d" % b, "p.asm"]
                    argv += ["--debug-no-optimize-static"] if flags[0] == "0" else []
                    argv += ["--debug-no-optimize-matcher"] if flags[1] == "0" else []
                    argv += ["-dX=0x33"] if mask[:1] == "1" else []
                    argv += ["-dY=0x44"] if mask[1:] == "1" else []
                    lines.append("C\t%s\t%s=%s\tBinary" % (";".join(vlib.hx(a) for a in argv), vlib.hx("p.asm"), vlib.hx(PROGRAMS[prog])))
                    keys.append((prog + "/" + flags + ("/" + mask if mask else ""), b))
    res = vlib.run_lines(capture_cmd(c.bins["debug"] + "/cli"), lines)
    need, base = {}, {}
    for (key, b), r in zip(keys, res):
        if r.startswith("OK\t"):
            need.setdefault(key, b)
            kp = key.split("/")
            if b == 10 and kp[1] == "11" and (len(kp) == 2 or kp[2] == "00"):
                a = parse_answer(r)
                base[key.split("/")[0]] = {"X": a.get("X"), "Y": a.get("Y")}     # the declared defaults (nothing defined)
    need["declared"] = base
    return need   # smallest budget that succeeds per program / switch combination (/ define mask); absent = never


def model_command(line):
    f = line.split("\t")
    if f[0] != "RUN":
        return {"kind": line.split(" ")[0], "cls": line}
    acts = []
    for a in (f[5].split(";") if f[5] else []):
        p = a.split(":")
        if p[0] == "P":
            acts.append(("P", None, (p[1], tuple(int(x, 16) for x in p[2:]))))
        elif p[0] == "W":
            acts.append(("W", bytes.fromhex(p[1]).decode("utf-8", "replace"), (p[2], tuple(int(x, 16) for x in p[3:]))))
        else:
            acts.append(("S", None, None))
    defs = []
    for d in (f[4].split(";") if f[4] else []):
        n, _, v = d.partition("=")
        defs.append((bytes.fromhex(n).decode("utf-8", "replace"), v))
    return {"kind": "RUN", "quiet": f[1] == "1", "colors": f[2] == "1", "iters": int(f[3], 16), "defines": defs, "actions": acts,
            "flags": f[6], "inputs": [bytes.fromhex(x).decode("utf-8", "replace") for x in (f[7].split(";") if len(f) > 7 and f[7] else [])]}


def probe_field(actions):
    return ";".join(":".join([a[2][0]] + ["%x" % x for x in a[2][1]]) for a in actions if a[0] in ("P", "W"))


def define_int(v):
    """'I:<[-]hex>:<size>' -> int, anything else -> None"""
    if v is None or not v.startswith("I:"):
        return None
    return int(v.split(":")[1], 16)


def first_define(m, name):
    return next((v for n, v in m["defines"] if n == name), None)


def asm_expectation(m, need):
    """does the assembly succeed (the assembler itself is outside C18: measured budgets, declared constants X and Y)"""
    if not m["inputs"]:
        return False
    progs = []
    for i in m["inputs"]:
        if i not in INPUT_FILES:
            return False
        progs.append(INPUT_FILES[i])
    if len(progs) > 1:
        return None           # two files declaring X twice etc.: not predicted, only the invariants are checked
    for n, _ in m["defines"]:
        if n not in ("X", "Y"):
            return False
    p = progs[0] + "/" + m["flags"][:2]
    if progs[0] in DEFPROGS:
        mask = ""
        for nm in ("X", "Y"):
            dv = first_define(m, nm)
            if dv is not None and (define_int(dv) is None or not -128 <= define_int(dv) <= 255):
                return None       # a boolean or an integer that does not fit `#d8`: the assembler's business, not predicted
            mask += "0" if dv is None else "1"
        p += "/" + mask
    if p not in need or m["iters"] < need[p]:
        return False
    return True


def check_command(chk, c, case, a, m, need, rp, dist):
    """spec predicates + correspondence for one in-process command line; returns True when everything agreed"""
    st = a["status"]
    if st in ("PANIC", "CRASH"):
        cls = None
        if any(re.fullmatch(r"[^=]*=-?", d) for g in case["groups"] for d in g.get("d", [])):
            cls = "define_empty_value_panic"
        elif any(big_group(g.get("f")) for g in case["groups"]):
            cls = "group_above_65535"
        report(chk, c, "the driver crashed on %r" % (case["argv"][1:],), rp, cls=cls)
        return False
    if st == "OK-WITH-ERRORS":
        report(chk, c, "success although errors were reported, on %r (writes: %r)" % (case["argv"][1:], [w[0] for w in a["writes"]]), rp, cls="success_with_errors")
        return False
    if st not in ("OK", "ERR"):
        report(chk, c, "inconsistent outcome %s on %r" % (st, case["argv"][1:]), rp)
        return False
    if st == "ERR" and (a["writes"] or (m["kind"] != "RUN" and a["printed"])):
        report(chk, c, "rejected command line %r still wrote %r / printed %d bytes" % (case["argv"][1:], [w[0] for w in a["writes"]], len(a["printed"])), rp)
        return False
    k = m["kind"]
    if k in ("ERR", "NOINPUT"):
        dist["rejected"] += 1
        if st != "ERR":
            cls = None
            if any(big_group(g.get("f")) for g in case["groups"]):
                cls = "group_above_65535"
            report(chk, c, "%r must be rejected before assembling (%s) but the driver answered %s" % (case["argv"][1:], m["cls"], st), rp, cls=cls)
            return False
        return True
    if k in ("HELP", "VERSION"):
        dist["help_version"] += 1
        ok = st == "OK" and not a["writes"]
        txt = a["printed"].decode("utf-8", "replace")
        if k == "HELP":
            ok = ok and all(e["name"] in txt for e in c.tables["usage"]["formats"]) and "--quiet" in txt
        else:
            ok = ok and "github.com/hlorenzi/customasm" in txt and "assembling" not in txt
        if not ok:
            report(chk, c, "%s requested by %r but: status %s, writes %r, %d bytes printed" % (k.lower(), case["argv"][1:], st, a["writes"], len(a["printed"])), rp)
        return ok
    if k != "RUN":
        report(chk, c, "model runner failed on %r: %s" % (case["argv"][1:], m["cls"]), rp, found=False)
        return False
    exp = asm_expectation(m, need)
    acts = [x for x in m["actions"] if x[0] in ("P", "W")]
    if st == "ERR":
        if exp is True:
            report(chk, c, "%r should assemble and act (%r) but failed" % (case["argv"][1:], [(x[0], x[1]) for x in acts]), rp)
            return False
        dist["asm_failed"] += 1
        return True
    # st == OK
    if exp is False:
        report(chk, c, "%r should fail (budget %d / inputs %r / defines %r) but succeeded" % (case["argv"][1:], m["iters"], m["inputs"], m["defines"]), rp)
        return False
    dist["ran"] += 1
    # one action per group, in order, with the group's own format
    wr_expected = [(x[1], x[2]) for x in acts if x[0] == "W"]
    probes = a["probes"]
    bits = probes[-1] if probes else "-"       # the extra probe: the output as -f binary, whatever the groups ask for
    probes = probes[:-1]
    if len(probes) != len(acts) or any(p in ("PANIC", "-") for p in probes):
        report(chk, c, "formatting one of %r failed on %r" % ([x[2] for x in acts], case["argv"][1:]), rp)
        return False
    pr = [("" if p == "e" else p) for p in probes]
    wi = 0
    got_w = [(bytes.fromhex(n).decode("utf-8", "replace"), d) for n, d in ((w[0], w[1] if len(w) > 1 else "") for w in a["writes"])]
    exp_w = [(x[1], pr[j]) for j, x in enumerate(acts) if x[0] == "W"]
    if got_w != exp_w:
        report(chk, c, "%r: files written %r, expected one per non-printing group in order %r (each with its own format's bytes)" % (
            case["argv"][1:], [(n, len(d) // 2) for n, d in got_w], [(n, len(d) // 2) for n, d in exp_w]), rp)
        return False
    if not any(g.get("di") for g in case["groups"]):
        it = int(a["it"]) if a.get("it", "-").isdigit() else 0
        want = expected_stdout(m["quiet"], m["inputs"], acts, pr, it)
        got = a["printed"] if m["quiet"] else strip_version(a["printed"])
        if got != want:
            report(chk, c, "%r: printed text differs from one print per -p group%s: got %r want %r" % (
                case["argv"][1:], " and no progress lines (quiet)" if m["quiet"] else "", got[:300], want[:300]), rp)
            return False
    if int(a["it"]) > m["iters"]:
        report(chk, c, "%r: %s iterations taken with a budget of %d" % (case["argv"][1:], a["it"], m["iters"]), rp)
        return False
    # defines: the first define of a name is the one the assembler uses
    # and it is the constant's value everywhere: in the symbol table and in the output bits where the constant is used,
    # whatever the declared default is (literal, label, later constant, address)
    prog = INPUT_FILES.get(m["inputs"][0]) if len(m["inputs"]) == 1 else None
    declared = need.get("declared", {}).get(prog, {})
    for idx, nm in enumerate(("X", "Y")):
        dv = first_define(m, nm)
        want = dv if dv is not None else declared.get(nm)
        if prog is None or want is None or not (exp is True or dv is not None):
            continue
        if a.get(nm) != want:
            report(chk, c, "%r: constant %s is %s after assembling (%s), %s" % (
                case["argv"][1:], nm, a.get(nm), prog, "the define says %s" % want if dv is not None else "its declared value is %s" % want),
                rp, cls="define_not_honoured" if dv is not None else None)
            return False
        if prog in DEFPROGS and define_int(want) is not None and re.fullmatch(r"[0-9a-f]{4,}", bits):
            byte = "%02x" % (define_int(want) & 0xff)
            if bits[2 * idx:2 * idx + 2] != byte:
                report(chk, c, "%r: the output byte that holds %s is 0x%s (%s), %s" % (
                    case["argv"][1:], nm, bits[2 * idx:2 * idx + 2], prog, "the define says 0x%s" % byte if dv is not None else "its declared value is 0x%s" % byte),
                    rp, cls="define_not_honoured" if dv is not None else None)
                return False
    return True


def stream_commands(chk, c, need):
    quick = chk.tier == "quick"
    cases, spell = cli_gen.command_cases(chk.rng.fork("cmd"), c.tables, quick, CMD_INPUTS)
    # directed families: defines in every literal form, iteration budgets, colour, help/version anywhere
    directed = []
    for d in cli_gen.DEFINES:
        for sp in ("attached", "long=", "detached"):
            w, _ = cli_gen.spell_value(chk.rng, "d", d, sp)
            directed.append({"groups": [{"i": ["main.asm"], "q": True, "d": [d]}], "argv": ["customasm", "main.asm", "-q"] + w})
    for tval in cli_gen.ITERS:
        for inp in ("main.asm", "iter.asm"):
            for sp in ("attached", "long=", "detached"):
                w, st = cli_gen.spell_value(chk.rng, "t", tval, sp)
                directed.append({"groups": [{"i": [inp]}, {"t": tval, "q": True}], "argv": ["customasm", inp, "--"] + w + ["-q"]})
    for pos in range(3):
        for flag, key in (("-h", "h"), ("--help", "h"), ("-v", "v"), ("--version", "v"), ("-q", "q"), ("--quiet", "q")):
            gs = [{"i": ["main.asm"], "f": "hexstr"}, {"p": True}, {"f": "binary", "o": "x.bin"}]
            gs[pos][key] = True
            argv = ["customasm", "main.asm", "-f", "hexstr", "--", "-p", "--", "-f", "binary", "-o", "x.bin"]
            at = [4, 6, 11][pos]
            argv = argv[:at] + [flag] + argv[at:]
            directed.append({"groups": gs, "argv": argv})
    for e in c.tables["usage"]["formats"]:
        for pr in (False, True):
            g = {"i": ["main.asm"], "f": e["text"], "q": True}
            argv = ["customasm", "main.asm", "-q", "-f", e["text"]]
            if pr:
                g["p"] = True
                argv.append("-p")
            directed.append({"groups": [g], "argv": argv})
    # defines honoured wherever they appear and whatever the constant's declared default is: every spelling, before / after
    # the input, in a later group; targets X, Y or both; values in every literal form; plus the no-define controls
    vals = ["0x33", "51", "%110011", "$33", "0b11_0011", "0o63", "-1", "0", "255", "0x7f", "-128", "1_0"]
    k = 0
    for inp in ("dlabel.asm", "dfwd.asm", "sub/dpc.asm", "main.asm"):
        directed.append({"groups": [{"i": [inp], "q": True}], "argv": ["customasm", inp, "-q"]})
        directed.append({"groups": [{"i": [inp]}, {"f": "symbols", "p": True, "q": True}], "argv": ["customasm", inp, "--", "-f", "symbols", "-p", "-q"]})
        for target in (("X",), ("Y",), ("X", "Y"), ("Y", "X")):
            for sp in ("attached", "detached", "longdetached", "long="):
                for pos in ("before", "after", "later", "later-print"):
                    ds, words = [], []
                    for nm in target:
                        d = "%s=%s" % (nm, vals[k % len(vals)])
                        k += 1
                        ds.append(d)
                        words += cli_gen.spell_value(chk.rng, "d", d, sp)[0]
                    if pos == "before":
                        directed.append({"groups": [{"i": [inp], "q": True, "d": ds}], "argv": ["customasm"] + words + [inp, "-q"]})
                    elif pos == "after":
                        directed.append({"groups": [{"i": [inp], "q": True, "d": ds}], "argv": ["customasm", inp, "-q"] + words})
                    elif pos == "later":
                        directed.append({"groups": [{"i": [inp], "q": True}, {"d": ds, "f": "hexstr", "o": "x.hex"}],
                                         "argv": ["customasm", inp, "-q", "--"] + words + ["-f", "hexstr", "-o", "x.hex"]})
                    else:
                        directed.append({"groups": [{"i": [inp], "f": "symbols", "p": True}, {"f": "binary"}, {"d": ds, "q": True, "p": True}],
                                         "argv": ["customasm", inp, "-f", "symbols", "-p", "--", "-f", "binary", "--", "-p", "-q"] + words})
    # just outside each documented set, and the input names of the property's quantifier, as whole command lines
    for f in BOUNDARY_FORMATS:
        for extra, gx in (([], {}), (["-p"], {"p": True}), (["-o", "x.out"], {"o": "x.out"})):
            directed.append({"groups": [dict({"i": ["main.asm"], "q": True, "f": f}, **gx)], "argv": ["customasm", "main.asm", "-q", "-f", f] + extra})
    for inp in ("proj.v2/main", "./prog", ".hidden", "a.b/c.d/e", "proj.v2/main.asm", "noext", "dir/main.asm"):
        for f in (None, "annotated", "mesen-mlb"):
            directed.append({"groups": [dict({"i": [inp], "q": True}, **({"f": f} if f else {}))],
                             "argv": ["customasm", inp, "-q"] + (["-f", f] if f else [])})
        directed.append({"groups": [{"i": [inp], "q": True}, {"f": "symbols"}], "argv": ["customasm", inp, "-q", "--", "-f", "symbols"]})
    # histories: invocations into the same directory whose outputs shrink from one run to the next (same given name, same
    # derived name, two groups naming one file); run for real in stream_real, step by step in one directory
    def step(inp, groups_rest, words):
        gs = [dict(g) for g in groups_rest]
        gs[0] = dict(gs[0], i=[inp], q=True)
        return {"groups": gs, "argv": ["customasm", inp, "-q"] + words}
    seqs = []
    for inp in ("main.asm", "iter.asm", "dir/main.asm"):
        seqs.append([step(inp, [{"f": f, "o": "out.txt"}], ["-f", f, "-o", "out.txt"]) for f in ("annotated", "hexdump", "binstr", "hexstr", "binary")])
        seqs.append([step(inp, [{"f": f}], ["-f", f]) for f in ("annotated,base:2,group:1", "annotated", "bindump", "binstr", "decc", "hexstr")])
        seqs.append([step(inp, [{"f": "annotated", "o": os.path.splitext(inp)[0] + ".bin"}], ["-f", "annotated", "-o", os.path.splitext(inp)[0] + ".bin"]),
                     step(inp, [{}], [])])
        seqs.append([step(inp, [{"f": a, "o": "both.txt"}, {"f": b, "o": "both.txt"}], ["-f", a, "-o", "both.txt", "--", "-f", b, "-o", "both.txt"])
                     for a, b in (("annotated", "binstr"), ("binstr", "hexstr"), ("hexstr", "binary"))])
        seqs.append([step(inp, [{"f": "symbols", "o": "s.txt"}, {"f": "annotated"}], ["-f", "symbols", "-o", "s.txt", "--", "-f", "annotated"]),
                     step(inp, [{"f": "hexstr", "o": "s.txt"}, {"f": "binstr"}], ["-f", "hexstr", "-o", "s.txt", "--", "-f", "binstr"]),
                     step(inp, [{"f": "binary", "o": "s.txt"}, {"p": True}], ["-f", "binary", "-o", "s.txt", "--", "-p"])])
    for sid, sq in enumerate(seqs):
        for k, cs in enumerate(sq):
            cs["seq"] = (sid, k)
            directed.append(cs)
    cases = directed + cases
    # the reference answer: usage text + property text (tools/cli_ref.py); the Coq model, when it can be instantiated, must agree
    ms = [cli_ref.command(c.tables["usage"], cs["groups"]) for cs in cases]
    mres = ["reference: " + m["cls"] if m["kind"] != "RUN" else "reference: RUN %r" % ({k: v for k, v in m.items() if k != "kind"},) for m in ms]
    if c.model:
        model_lines = ["C\t" + "|".join(cli_gen.group_tokens(g) for g in cs["groups"]) for cs in cases]
        xres = vlib.run_lines([c.model], model_lines)
        nbad = 0
        for cs, m, x in zip(cases, ms, xres):
            xm = model_command(x) if not x.startswith(("MODELEXN", "?", "CRASH")) else {"kind": "MODELFAIL"}
            if {k: v for k, v in xm.items() if k != "cls"} != {k: v for k, v in m.items() if k != "cls"}:
                nbad += 1
                if nbad <= 3:
                    report(chk, c, "the Python reference and the Coq model disagree on %r: reference %r, model %s" % (cs["argv"][1:], m, x[:300]),
                           {"kind": "command", "stream": "cmd", "argv": cs["argv"], "groups": cs["groups"], "reference": repr(m), "model": x[:600]}, found=False)
        chk.cov["reference_vs_model_disagreements"] = nbad
    impl_lines = []
    for cs, m in zip(cases, ms):
        names = [i for g in cs["groups"] for i in g.get("i", [])]
        probes = ";".join(x for x in (probe_field(m["actions"]), "Binary") if x) if m["kind"] == "RUN" else ""
        impl_lines.append("C\t%s\t%s\t%s" % (";".join(vlib.hx(a) for a in cs["argv"]), files_field(sorted(set(names))), probes))
    res = {p: vlib.run_lines(capture_cmd(c.bins[p] + "/cli"), impl_lines) for p in c.bins}
    dist = {"rejected": 0, "help_version": 0, "asm_failed": 0, "ran": 0, "groups1": 0, "groups2": 0, "groups3": 0, "groups4": 0}
    bad = 0
    for idx, (cs, m) in enumerate(zip(cases, ms)):
        a = parse_answer(res["debug"][idx])
        rp = {"kind": "command", "stream": "cmd", "argv": cs["argv"], "groups": cs["groups"], "impl": a["raw"][:600], "model": mres[idx][:600]}
        ng = len(cs["groups"])
        dist["groups%d" % ng] += 1
        if ng >= 2 or any(x[0] == "W" and not cs["groups"][j].get("o") for j, x in enumerate(m.get("actions", [])) if j < ng) or \
                any(g.get(k) for g in cs["groups"][1:] for k in ("q", "t", "d", "c", "h", "v")):
            chk.nontriv(("cmd", tuple(cs["argv"])))
        if "release" in res:
            b = parse_answer(res["release"][idx])
            if (b["status"], b.get("W"), b.get("S")) != (a["status"], a.get("W"), a.get("S")):
                cls = "mesen_mlb_offset_underflow" if any((g.get("f") or "").startswith("mesen-mlb") for g in cs["groups"]) else None
                report(chk, c, "debug and release builds disagree on %r" % (cs["argv"][1:],), dict(rp, release=b["raw"][:600], kind="profile-divergence"), cls=cls)
                bad += 1
                continue
        if not check_command(chk, c, cs, a, m, need, rp, dist):
            bad += 1
        if idx % 400 == 5:
            chk.sample({"argv": cs["argv"], "impl": a["raw"][:200], "model": mres[idx][:200]})
    chk.count("command-lines", len(cases), **dist)
    chk.cov["spellings"] = spell
    chk.cov["traces_validated_against_impl"] += len(cases)
    chk.cov["disagreements_checked"] += bad
    return cases, ms, [parse_answer(x) for x in res["debug"]]


# ================================================================================================ stream 3b: defines x size-sensitive consumers
# what a define's value is (tools/cli_ref.define = Model/Driver.parse_define: `-dN=-<literal>` is the UNSIZED negation, a positive
# radix literal carries its digit-count size) decides what each consumer of the constant must do with it
CONSUMERS = {
    "d8": "X = 0\n#d8 X\n", "d4": "X = 0\n#d4 X\n", "d9": "X = 0\n#d9 X\n", "d16": "X = 0\n#d16 X\n",
    "d": "X = 0x00\n#d X\n",                      # unsized directive: needs a definite size
    "cat": "X = 0x00\n#d X @ 0x1\n",              # concatenation: needs a definite size
    "sizeof": "X = 0x00\n#d8 sizeof(X)\n",
    "u8": "#ruledef\n{\n    ld {v: u8} => 0x55 @ v\n}\nX = 0\nld X\n",
    "s8": "#ruledef\n{\n    ld {v: s8} => 0x55 @ v\n}\nX = 0\nld X\n",
}
CONSUMER_LITERALS = ["0", "1", "0x7f", "0x80", "0x81", "0xff", "0x100", "0x0ff", "0x00", "0x1", "0xf", "0x10", "%1111111", "%10000000",
                     "%11111111", "0b1", "0b0", "0b00000001", "0b100000000", "0o177", "0o200", "0o377", "0o400", "0o1", "$ff", "$80",
                     "$7f", "$0", "127", "128", "129", "255", "256", "7", "8", "15", "16", "0x7fff", "0x8000", "0xffff", "0x1_0", "0xFF"]


def min_size(v):
    return 1 if v == 0 else ((-(v + 1)).bit_length() + 1 if v < 0 else v.bit_length())


def low_bits(v, n):
    return "".join("1" if (v >> (n - 1 - i)) & 1 else "0" for i in range(n))


def consumer_expect(kind, v, size):
    """the output bits, or None when the program must be rejected (C04's range rules over (value, declared size))"""
    if kind in ("d8", "d4", "d9", "d16"):
        n = int(kind[1:])
        return low_bits(v, n) if (size if size is not None else min_size(v)) <= n else None
    if kind == "d":
        return low_bits(v, size) if size is not None else None
    if kind == "cat":
        return low_bits(v, size) + "0001" if size is not None else None
    if kind == "sizeof":
        return low_bits(size, 8) if size is not None and size < 256 else None
    if kind == "u8":
        return "01010101" + low_bits(v, 8) if 0 <= v <= 255 else None
    if kind == "s8":
        return "01010101" + low_bits(v, 8) if -128 <= v <= 127 else None
    raise ValueError(kind)


def stream_consumers(chk, c):
    cases = []
    k = 0
    for lit in CONSUMER_LITERALS:
        for sign in ("", "-"):
            raw = "X=" + sign + lit
            for kind in CONSUMERS:
                sp = ("attached", "detached", "long=", "longdetached")[k % 4]
                k += 1
                cases.append((raw, kind, cli_gen.spell_value(chk.rng, "d", raw, sp)[0]))
    impl_lines = ["C\t%s\t%s=%s\tBinStr" % (";".join(vlib.hx(a) for a in ["customasm", "p.asm", "-q", "-p"] + w), vlib.hx("p.asm"),
                                            vlib.hx(CONSUMERS[kind])) for raw, kind, w in cases]
    res = {p: vlib.run_lines(capture_cmd(c.bins[p] + "/cli"), impl_lines) for p in c.bins}
    mres = vlib.run_lines([c.model], ["D\t" + vlib.hx(raw) for raw, _, _ in cases]) if c.model else [None] * len(cases)
    dist = {"accepted": 0, "rejected": 0, "negated": 0}
    bad = 0
    for idx, (raw, kind, w) in enumerate(cases):
        ref = cli_ref.define(raw)
        if mres[idx] is not None:
            want = "ERR" if ref is None else "OK %s %s" % (vlib.hx(ref[0]), ref[1])
            if mres[idx] != want:
                report(chk, c, "the Python reference (%s) and the Coq model (%s) disagree on the define %r" % (want, mres[idx], raw),
                       {"kind": "define-consumer", "define": raw, "reference": want, "model": mres[idx]}, found=False)
                continue
        _, hexv, sz = ref[1].split(":")
        v, size = int(hexv, 16), (None if sz == "-" else int(sz, 16))
        exp = consumer_expect(kind, v, size)
        a = parse_answer(res["debug"][idx])
        argv = ["customasm", "p.asm", "-q", "-p"] + w
        rp = {"kind": "define-consumer", "stream": "consumers", "define": raw, "consumer": kind, "program": CONSUMERS[kind], "argv": argv,
              "value": v, "declared_size": size, "expected_bits": exp, "impl": a["raw"][:300]}
        chk.nontriv(("consumer", raw, kind))
        dist["negated"] += 1 if raw.startswith("X=-") else 0
        if "release" in res and parse_answer(res["release"][idx])["status"] != a["status"]:
            report(chk, c, "debug and release builds disagree on -d%s with `%s`" % (raw, kind), dict(rp, kind="profile-divergence"))
            bad += 1
            continue
        got = None
        if a["status"] == "OK" and a["probes"] and re.fullmatch(r"[0-9a-f]*|e", a["probes"][-1]):
            got = "" if a["probes"][-1] == "e" else bytes.fromhex(a["probes"][-1]).decode()
        elif a["status"] != "ERR":
            report(chk, c, "-d%s with `%s`: %s" % (raw, CONSUMERS[kind].split("\n")[-2], a["status"]), rp)
            bad += 1
            continue
        dist["accepted" if got is not None else "rejected"] += 1
        if got != exp:
            bad += 1
            vs = "%d (%s)" % (v, "unsized" if size is None else "size %d" % size)
            report(chk, c, "-d%s is the value %s; `%s` must %s, the implementation %s" % (
                raw, vs, CONSUMERS[kind].strip().split("\n")[-1],
                "be rejected (the value does not fit / has no definite size)" if exp is None else "emit " + exp,
                "rejects it" if got is None else "emits " + got), rp, cls="define_size")
        if idx % 150 == 11:
            chk.sample({"define": raw, "consumer": kind, "expected_bits": exp, "impl_bits": got})
    chk.count("define-consumers", len(cases), **dist)
    chk.cov["traces_validated_against_impl"] += len(cases)
    chk.cov["disagreements_checked"] += bad


# ================================================================================================ stream 4: the real binary
def sane_for_disk(cs):
    for g in cs["groups"]:
        for k in ("o",):
            v = g.get(k)
            if v is not None and (v == "" or v.startswith("/") or ".." in v or v == "main.asm"):
                return False
        for i in g.get("i", []):
            if i == "" or i.startswith("/") or ".." in i:
                return False
    return True


def run_real(binary, argv, root, stale=None, steps=None):
    """run the real binary in a scratch directory holding the input files (and `stale`: name -> bytes already lying there).
    steps = several command lines run one after the other in the same directory.  Returns, for the single command line,
    (rc, stdout, stderr, files whose content changed); for steps, the list of these (changes relative to the state before the step)."""
    shutil.rmtree(root, ignore_errors=True)
    os.makedirs(root)
    for d in ("dir", "o", "sub"):
        os.makedirs(os.path.join(root, d))
    for n, p in INPUT_FILES.items():
        path = os.path.join(root, n)
        os.makedirs(os.path.dirname(path), exist_ok=True)
        with open(path, "w") as f:
            f.write(PROGRAMS[p])
    for n, data in (stale or {}).items():
        path = os.path.join(root, n)
        os.makedirs(os.path.dirname(path), exist_ok=True)
        with open(path, "wb") as f:
            f.write(data)

    def snapshot():
        snap = {}
        for dp, _, fs in os.walk(root):
            for f in fs:
                snap[os.path.relpath(os.path.join(dp, f), root)] = open(os.path.join(dp, f), "rb").read()
        return snap
    results = []
    before = snapshot()
    for av in (steps if steps is not None else [argv]):
        try:
            pr = subprocess.run([binary] + av[1:], cwd=root, stdout=subprocess.PIPE, stderr=subprocess.PIPE, timeout=60)
            rc, out, err = pr.returncode, pr.stdout, pr.stderr
        except subprocess.TimeoutExpired:
            rc, out, err = -999, b"", b""
        after = snapshot()
        results.append((rc, out, err, {k: v for k, v in after.items() if before.get(k) != v}, before))
        before = after
    shutil.rmtree(root, ignore_errors=True)
    if steps is not None:
        return results
    return results[0][:4]


def written_content_problems(m, ans, rc, changed, before):
    """after the run, each written file's bytes are exactly what the same group writes into an empty directory
    (= the bytes handed to the mock file server by the same command line; two groups naming one file: the last one)"""
    if m["kind"] != "RUN" or rc != 0 or ans["status"] != "OK":
        return []
    exp = {}
    for w in ans["writes"]:
        exp[os.path.normpath(bytes.fromhex(w[0]).decode("utf-8", "replace"))] = bytes.fromhex(w[1]) if len(w) > 1 else b""
    problems = []
    for name, data in sorted(exp.items()):
        got = changed.get(name, before.get(name))
        if got is None:
            problems.append("%s was not written" % name)
        elif got != data:
            if got.startswith(data) and name in before and got[len(data):] == before[name][len(data):]:
                how = "its %d bytes followed by the tail of the %d-byte file that was there before" % (len(data), len(before[name]))
            else:
                how = "%d bytes %r" % (len(got), got[:40])
            problems.append("%s holds %s; the group writes exactly %d bytes %r" % (name, how, len(data), data[:40]))
    return problems


def stream_real(chk, c, cases, ms, need, answers):
    quick = chk.tier == "quick"
    pick = [i for i, cs in enumerate(cases) if sane_for_disk(cs) and "seq" not in cs]
    rng = chk.rng.fork("real")
    limit = 1000 if quick else 6000
    if len(pick) > limit:
        head = [i for i in pick if i < 700]
        rest = rng.shuffle([i for i in pick if i >= 700])[:limit - len(head)]
        pick = sorted(head + rest)
    binary = c.real["debug"]

    def work(i):
        return run_real(binary, None, os.path.join(SCRATCH, "real_%d" % i), steps=[cases[i]["argv"]])[0]

    # the same command lines again, with a longer stale file of arbitrary bytes already lying at every name they will write
    def stale_for(i):
        m = ms[i]
        if m["kind"] != "RUN":
            return None
        r = rng.fork("stale%d" % i)
        names = sorted(set(os.path.normpath(x[1]) for x in m["actions"] if x[0] == "W") - set(os.path.normpath(x) for x in m["inputs"]))
        return {n: bytes(r.below(256) for _ in range(r.range(300, 1500))) for n in names} or None
    stales = {i: stale_for(i) for i in pick}
    hist = [i for i in pick if stales[i]]

    def work_stale(i):
        return run_real(binary, None, os.path.join(SCRATCH, "stale_%d" % i), stale=stales[i], steps=[cases[i]["argv"]])[0]
    seq_ids = sorted(set(cs["seq"][0] for cs in cases if "seq" in cs))
    seq_cases = {sid: sorted((cs["seq"][1], i) for i, cs in enumerate(cases) if cs.get("seq", (None,))[0] == sid) for sid in seq_ids}

    def work_seq(sid):
        return run_real(binary, None, os.path.join(SCRATCH, "seq_%d" % sid), steps=[cases[i]["argv"] for _, i in seq_cases[sid]])
    with ThreadPoolExecutor(vlib.NCPU) as ex:
        results = list(ex.map(work, pick))
        results_stale = list(ex.map(work_stale, hist))
        results_seq = list(ex.map(work_seq, seq_ids))
    dist = {"exit0": 0, "exit1": 0, "crash": 0}
    bad = 0
    clean_rc = {}
    # --- histories: stale files, then shrinking sequences
    nhist = 0
    for i, (rc, out, err, changed, before) in zip(pick, results):
        clean_rc[i] = rc
    for i, (rc, out, err, changed, before) in zip(hist, results_stale):
        cs, m = cases[i], ms[i]
        nhist += 1
        problems = written_content_problems(m, answers[i], rc, changed, before)
        if rc != clean_rc[i]:
            problems.append("exit status %d, but %d in an empty directory" % (rc, clean_rc[i]))
        if rc != 0 and changed:
            problems.append("failed but changed %r" % sorted(changed))
        if problems:
            bad += 1
            report(chk, c, "customasm %r in a directory where %s already exist(s): %s" % (
                cs["argv"][1:], ", ".join("%s (%d bytes)" % (n, len(d)) for n, d in sorted(stales[i].items())), "; ".join(problems)),
                {"kind": "real-binary-history", "stream": "real", "steps": [cs["argv"]], "stale": {n: d.hex() for n, d in stales[i].items()},
                 "exit": rc, "files": {n: d.hex()[:400] for n, d in sorted(changed.items())}}, cls="stale_output_not_replaced")
    for sid, steps in zip(seq_ids, results_seq):
        for (k, i), (rc, out, err, changed, before) in zip(seq_cases[sid], steps):
            cs, m = cases[i], ms[i]
            nhist += 1
            problems = written_content_problems(m, answers[i], rc, changed, before)
            if m["kind"] == "RUN" and asm_expectation(m, need) is True and rc != 0:
                problems.append("exit status %d" % rc)
            if problems:
                bad += 1
                argvs = [cases[j]["argv"] for _, j in seq_cases[sid]][:k + 1]
                report(chk, c, "after running %s in the same directory, customasm %r: %s" % (
                    "; ".join(" ".join(a[1:]) for a in argvs[:-1]) or "(nothing)", cs["argv"][1:], "; ".join(problems)),
                    {"kind": "real-binary-history", "stream": "real", "steps": argvs, "stale": {}, "exit": rc,
                     "files": {n: d.hex()[:400] for n, d in sorted(changed.items())}}, cls="stale_output_not_replaced")
                break
    chk.count("real-binary-histories", nhist, stale_directories=len(hist), sequences=len(seq_ids))
    for i, (rc, out, err, created, before) in zip(pick, results):
        cs, m = cases[i], ms[i]
        rp = {"kind": "real-binary", "stream": "real", "argv": cs["argv"], "exit": rc, "stdout": out.decode("utf-8", "replace")[:500],
              "stderr": err.decode("utf-8", "replace")[:500], "files": sorted(created), "model": m.get("cls", m["kind"])}
        if rc not in (0, 1):
            dist["crash"] += 1
            cls = None
            if any(re.fullmatch(r"[^=]*=-?", d) for g in cs["groups"] for d in g.get("d", [])):
                cls = "define_empty_value_panic"
            elif any(big_group(g.get("f")) for g in cs["groups"]):
                cls = "group_above_65535"
            report(chk, c, "customasm %r died with status %d" % (cs["argv"][1:], rc), rp, cls=cls)
            bad += 1
            continue
        dist["exit%d" % rc] += 1
        k = m["kind"]
        exp = None
        if k in ("ERR", "NOINPUT"):
            exp = False
        elif k in ("HELP", "VERSION"):
            exp = True
        elif k == "RUN":
            exp = asm_expectation(m, need)
        want_files = None
        if k == "RUN" and exp is not False and rc == 0:
            want_files = sorted(set(os.path.normpath(x[1]) for x in m["actions"] if x[0] == "W"))
        problems = []
        if exp is True and rc != 0:
            problems.append("exit status %d, expected success" % rc)
        if exp is False and rc == 0:
            problems.append("exit status 0, expected a rejection")
        if rc != 0 and created:
            problems.append("failed but created %r" % sorted(created))
        if k in ("HELP", "VERSION") and created:
            problems.append("%s created files %r" % (k.lower(), sorted(created)))
        if want_files is not None and sorted(created) != want_files:
            problems.append("files on disk %r, expected %r" % (sorted(created), want_files))
        prog = INPUT_FILES.get(m["inputs"][0]) if k == "RUN" and len(m["inputs"]) == 1 else None
        if k == "RUN" and rc == 0 and prog in DEFPROGS:
            # the define's value is what the binary file holds where the constant is used
            last = {os.path.normpath(x[1]): x for x in m["actions"] if x[0] == "W"}      # two groups may name the same file: last wins
            for x in last.values():
                data = created.get(os.path.normpath(x[1])) if x[2] == ("Binary", ()) else None
                for idx, nm in enumerate(("X", "Y")):
                    dv = first_define(m, nm)
                    want = define_int(dv if dv is not None else need.get("declared", {}).get(prog, {}).get(nm))
                    if data is not None and want is not None and len(data) > idx and data[idx] != want & 0xff:
                        problems.append("byte %d of %s (constant %s) is 0x%02x, %s 0x%02x" % (
                            idx, x[1], nm, data[idx], "the define says" if dv is not None else "its declared value is", want & 0xff))
        if k == "RUN" and rc == 0 and m["quiet"] and not any(x[0] == "P" for x in m["actions"]) and out:
            problems.append("quiet run printed %r" % out[:80])
        if k == "RUN" and rc == 0 and not m["quiet"] and b"assembling" not in out:
            problems.append("progress report missing although not quiet")
        if k == "RUN" and rc != 0 and exp is False and m["inputs"] and all(x in INPUT_FILES for x in m["inputs"]) and err:
            colored = b"\x1b[" in err
            if colored != m["colors"]:
                problems.append("diagnostics %s although colour is %s" % ("coloured" if colored else "plain", "on" if m["colors"] else "off"))
        if k == "HELP" and rc == 0 and not all(e["name"].encode() in out for e in c.tables["usage"]["formats"]):
            problems.append("help does not show the usage text")
        if not problems:
            problems += written_content_problems(m, answers[i], rc, created, before)
        if problems:
            bad += 1
            cls = None
            if rc == 0 and exp is False and k == "RUN" and any(n not in ("X", "Y") for n, _ in m["defines"]):
                cls = "success_with_errors"
            report(chk, c, "customasm %r: %s" % (cs["argv"][1:], "; ".join(problems)), rp, cls=cls)
    chk.count("real-binary", len(pick), **dist)
    chk.cov["traces_validated_against_impl"] += len(pick)
    chk.cov["disagreements_checked"] += bad


# ================================================================================================ entry points
def run(chk):
    chk.rule = RULE
    setup()
    c = build(chk)
    c.known = known_classes()
    chk.prove()
    build_runners(c)
    t = c.tables
    chk.cov["usage_formats"] = len(t["usage"]["formats"])
    chk.cov["driver_names_not_in_usage_text"] = t["undocumented_names"]
    if t["documented_without_arm"]:
        report(chk, c, "format names printed by the usage text that the driver has no arm for: %r" % t["documented_without_arm"],
               {"kind": "usage-table", "names": t["documented_without_arm"]})
    stream_formats(chk, c)
    stream_names(chk, c)
    need = calibrate(c)
    chk.cov["measured_minimum_budgets"] = need
    cases, ms, answers = stream_commands(chk, c, need)
    stream_consumers(chk, c)
    stream_real(chk, c, cases, ms, need, answers)
    if c.degraded:
        # the broken tie itself, listed after the concrete failing inputs the streams found (if any) but within the printed five
        chk.cov["tie_broken"] = c.degraded
        found = [v for v in chk.violations if v[2]]
        chk.cov["concrete_violations_found"] = len(found)
        chk.violations = found[:4] + [v for v in chk.violations if not v[2]]     # (vlib prints five, concrete ones first)
        chk.violations.insert(len(found[:4]), (
            "the driver side of the C18 tables can no longer be read from the source (%s): the Coq model cannot be instantiated and "
            "Props/C18 does not build; the streams ran with the usage-text / property-text reference only" % c.degraded,
            {"kind": "broken-tie", "error": c.degraded, "proof_failures": (chk.proof or {}).get("failures")}, False))
    for f in os.listdir(SCRATCH):
        if f.startswith("out."):
            try:
                os.remove(os.path.join(SCRATCH, f))
            except OSError:
                pass
    chk.assumptions = vlib.TRUSTED_BASE + [
        "getopts (the spelling layer: short/long, attached/detached values, clusters, `--`) is an oracle: the model starts from the per-group parsed options; spellings are exercised by the correspondence streams only",
        "the assembler is an oracle for C18: which budgets let the three fixed programs succeed is measured on the implementation at the start of the run",
        "std::path::PathBuf::set_extension is modelled for Unix paths ('/' separator; '\\' is an ordinary character until the final replacement)",
        "tools/translate_cli.py (regex reader of usage_help.md / driver.rs / asm/mod.rs / syntax/excerpt.rs) and the diagnostic class table of harness/src/bin/cli.rs (which parameter a message names)",
    ]


def replay(chk, rep):
    r = rep.get("replay", rep)
    c = build(chk)
    c.bins = vlib.harness_build(("debug",))
    try:
        vlib.extraction("ExCli")
        c.model = vlib.ocaml_build("cli_driver", ["cli_model"])
    except Exception:
        c.model = None
    setup()
    kind = r.get("kind")
    if kind == "format" or r.get("stream") == "fmt":
        s = r["format"]
        now = vlib.run_lines([c.bins["debug"] + "/cli"], ["F\t%s\t8" % vlib.hx(s)], shards=1)[0]
        mod = vlib.run_lines([c.model], ["F\t%s" % vlib.hx(s)], shards=1)[0] if c.model else "(model not available)"
        print("usage-text reference: %r" % (cli_ref.spec_format(c.tables["usage"], s),))
        print("format string: %r\nimplementation now: %s\nmodel / spec now:   %s\nrecorded impl: %s  model: %s  spec: %s" % (
            s, now, mod, r.get("impl"), r.get("model"), r.get("spec")))
    elif kind == "derived-name":
        n, f = r["input"], r.get("format")
        argv = ["customasm", "-q"] + (["-f", f] if f else []) + [n]
        now = vlib.run_lines(capture_cmd(c.bins["debug"] + "/cli"),
                             ["C\t%s\t%s=%s\t" % (";".join(vlib.hx(a) for a in argv), vlib.hx(n), vlib.hx(PROGRAMS["good"]))], shards=1)[0]
        print("input name: %r format: %s\nimplementation now: %s\nrecorded: %s\nmodel: %s" % (n, f, now[:400], r.get("impl"), r.get("model")))
    elif kind == "define-consumer" or r.get("stream") == "consumers":
        now = vlib.run_lines(capture_cmd(c.bins["debug"] + "/cli"),
                             ["C\t%s\t%s=%s\tBinStr" % (";".join(vlib.hx(x) for x in r["argv"]), vlib.hx("p.asm"), vlib.hx(r["program"]))], shards=1)[0]
        a = parse_answer(now)
        bits = bytes.fromhex(a["probes"][-1]).decode() if a["status"] == "OK" and a["probes"] and a["probes"][-1] not in ("e", "-", "PANIC") else None
        print("p.asm:\n%s\ncommand line: %r\nimplementation now: %s, output bits %s\nexpected (value %s, declared size %s): %s\nrecorded: %s" % (
            r["program"], r["argv"], a["status"], bits, r.get("value"), r.get("declared_size"),
            "rejected" if r.get("expected_bits") is None else r.get("expected_bits"), r.get("impl")))
    elif kind in ("command", "profile-divergence") and "argv" in r:
        names = [i for g in r.get("groups", []) for i in g.get("i", [])]
        now = vlib.run_lines(capture_cmd(c.bins["debug"] + "/cli"),
                             ["C\t%s\t%s\t" % (";".join(vlib.hx(a) for a in r["argv"]), files_field(sorted(set(names))))], shards=1)[0]
        print("command line: %r\nimplementation now: %s\nrecorded: %s\nmodel: %s" % (r["argv"], now[:600], r.get("impl"), r.get("model")))
    elif kind == "real-binary-history":
        real = vlib.customasm_build(("debug",))
        res = run_real(real["debug"], None, os.path.join(SCRATCH, "replay"), stale={n: bytes.fromhex(h) for n, h in r.get("stale", {}).items()}, steps=r["steps"])
        print("stale files present before: %r" % {n: len(h) // 2 for n, h in r.get("stale", {}).items()})
        for av, (rc, out, err, changed, before) in zip(r["steps"], res):
            print("customasm %r -> exit %d, files changed: %r" % (av[1:], rc, {n: (len(d), d[:48]) for n, d in sorted(changed.items())}))
        print("recorded: exit %s, files %r" % (r.get("exit"), {n: h[:96] for n, h in r.get("files", {}).items()}))
    elif kind == "real-binary":
        real = vlib.customasm_build(("debug",))
        rc, out, err, created = run_real(real["debug"], r["argv"], os.path.join(SCRATCH, "replay"))
        print("command line: %r\nnow: exit %d, files %r\nstdout: %s\nstderr: %s\nrecorded: exit %s files %r" % (
            r["argv"], rc, sorted(created), out.decode("utf-8", "replace")[:400], err.decode("utf-8", "replace")[:400], r.get("exit"), r.get("files")))
    else:
        print(json.dumps(r, indent=1)[:3000])
    return 0
