"""C02 — a successful result is a genuine fixed point, never a stale guess.
Theorems: coq/Props/C02.v.  Streams: cascading programs x budgets x switches; the extracted certificate
(Spec.Certificate.cert_check = the predicate of C02_certificate evaluated on a state reconstructed from the
implementation's own symbols + bits) is run on every successful implementation result."""
import vlib, asm_gen, asm_streams
import sys, os
sys.path.insert(0, os.path.dirname(os.path.abspath(__file__)))
import ext_resolver2

RULE = ("G-isa x G-prog with value-dependent encodings (assert-selected and typed-width cascading families, forward references, "
        "parameters named like constants) x budgets 1..30 x both optimisation switches; every successful implementation result is "
        "checked with the extracted certificate on its own symbol values and bits; implementation = extracted model; "
        "non-trivial = distinct program with an operand referencing a symbol")


def run(chk):
    chk.rule = RULE
    chk.prove()
    R = asm_streams.Runner(("debug", "release"))
    quick = chk.tier == "quick"
    n = 2500 if quick else 25000
    rng = chk.rng.fork("c02")
    progs, icases, mcases = [], [], []
    for i in range(n):
        p = asm_gen.gen_widthflip_prog(rng) if rng.chance(0.04) else asm_gen.gen_unsized_prog(rng) if rng.chance(0.03) else asm_gen.gen_pcassert_prog(rng) if rng.chance(0.03) else asm_gen.gen_frozen_prog(rng) if rng.chance(0.03) else asm_gen.gen_scope_prog(rng) if rng.chance(0.03) else asm_gen.gen_chain_prog(rng) if rng.chance(0.1) else asm_gen.gen_shift_prog(rng) if rng.chance(0.15) else asm_gen.gen_prog(rng, size_static=rng.chance(0.25), collide=rng.chance(0.35), boundary=rng.chance(0.2))
        b = rng.weighted([(1, 5), (2, 10), (3, 15), (4, 15), (5, 10), (10, 25), (11, 5), (30, 15)]) if rng.chance(0.8) else rng.range(1, 30)
        s, m = rng.chance(0.5), rng.chance(0.5)
        progs.append((p, b, s, m))
        icases.append((p.text(), b, s, m))
        mcases.append((p, b, m))
    ia = R.impl(icases, "debug")
    ir = R.impl(icases, "release")
    ma = R.model_run(mcases)
    # F70 (KNOWN_FINDINGS, property C08): with the static-value optimisation a program made of statically known
    # items only is declared resolved in pass 1; the model (static optimisation off, as the theorems) reaches the same
    # state and sees it unchanged in pass 2.  Such answers are compared with the model run at budget max(b, 2).
    one_pass = [i for i, (c, a) in enumerate(zip(icases, ia)) if c[2] and a.startswith("OK\t") and a.split("\t")[2] == "1"]
    if one_pass:
        m2 = R.model_run([(progs[i][0], max(progs[i][1], 2), progs[i][3]) for i in one_pass])
        for i, mo in zip(one_pass, m2):
            f = mo.split("\t")
            if f[0] == "OK" and f[2] == "2":
                f[2] = "1"
                ma[i] = "\t".join(f)
    cert_cases, cert_idx = [], []
    dist = {"ok": 0, "err": 0, "cascading_isa": 0}
    ndis = 0
    for i, ((p, b, s, m), a, ar, mo) in enumerate(zip(progs, ia, ir, ma)):
        ci, cr, cm = asm_gen.canon_impl(a), asm_gen.canon_impl(ar), asm_gen.canon_model(mo)
        text = icases[i][0]
        rep = {"kind": "program", "program": text, "budget": b, "static_opt": s, "matcher_opt": m, "impl": a[:2000], "model": mo[:2000]}
        if asm_streams.nontrivial(p):
            chk.nontriv(text)
        if any(r.get('cascade') for r in p.isa.rules):
            dist["cascading_isa"] += 1
        if ci[0] not in ("OK", "ERR"):
            chk.violation("implementation crashed or was inconsistent (%s)" % ci[0], rep)
            continue
        if asm_streams.sig(ci) != asm_streams.sig(cr):
            chk.violation("debug and release builds disagree", dict(rep, release=ar[:2000]))
            continue
        dist["ok" if ci[0] == "OK" else "err"] += 1
        if ci[0] == "OK":
            if ci[2] > b:
                chk.violation("reported %d passes with budget %d" % (ci[2], b), rep)
            f = a.split("\t")
            cert_cases.append((p, b, m, "cert", (f[4] if len(f) > 4 else "") + (f[5] if len(f) > 5 else ""), f[1]))
            cert_idx.append(i)
        if (ci[0], ci[1], ci[2], ci[3]) != (cm[0], cm[1], cm[2], cm[3]):
            ndis += 1
            chk.violation("model/implementation correspondence broken (program below): impl %s model %s" % (str(ci)[:200], str(cm)[:200]),
                          dict(rep, theorems=["C02_certificate", "C02_resolved_pass_is_fixpoint"]), found=False)
        if i % 600 == 3:
            chk.sample({"program": text, "budget": b, "impl": a[:300]})
    # the certificate on the implementation's own claimed results
    lines = []
    for c in cert_cases:
        lines.append(c[0].model_line(c[1], c[2]) + "\t" + "\t".join(c[3:]))
    ca = vlib.run_lines([R.model], lines)
    ncert = 0
    for i, c in zip(cert_idx, ca):
        ncert += 1
        if c != "CERT-OK":
            p, b, s, m = progs[i]
            chk.violation("the implementation's result is not self-consistent: recomputing every item from its final symbol values does not "
                          "reproduce the emitted bits (stale guess)",
                          {"kind": "certificate", "program": icases[i][0], "budget": b, "static_opt": s, "matcher_opt": m, "impl": ia[i][:2000], "certificate": c})
    chk.count("programs", len(progs), **dist)
    chk.count("certificates_on_impl_output", ncert)
    chk.cov["traces_validated_against_impl"] = len(progs)
    chk.cov["disagreements_checked"] = ndis
    # the larger fragment (banks, nested symbols): Model/Resolver2.v
    ext_resolver2.run_streams(chk, quick, which=("correspondence",))
    fn_certificate_stream(chk, quick, R)
    # asm blocks with several labels: the emitted bits must be the block's in-place meaning (decoded from the output)
    import c17
    c17.multi_label_stream(chk, quick, R=R)


def fn_certificate_stream(chk, quick, R):
    """programs with user-function calls (outside the resolver model): the implementation's result for the program WITH
    calls must pass the extracted certificate of the same program with every call replaced by its body (a call means
    its body under the parameter bindings: C17) -- i.e. recomputing every item from the final symbol values reproduces
    the emitted bits, also for items whose value goes through a function"""
    import c17_gen
    rng = chk.rng.fork("c02-fn")
    cases = []
    tries = 0
    want = 150 if quick else 1500
    while len(cases) < want and tries < 20 * want:
        tries += 1
        tc, te, pe, feats = c17_gen.gen_fn_case(rng)
        if 'macro-item' in feats:
            continue
        cases.append((tc, pe, rng.choice([5, 10, 30]), rng.chance(0.7), rng.chance(0.5), feats))
    ia = R.impl([(tc, b, s, m) for (tc, pe, b, s, m, feats) in cases])
    lines, idx = [], []
    for i, ((tc, pe, b, s, m, feats), a) in enumerate(zip(cases, ia)):
        f = a.split("\t")
        if f[0] == "OK":
            lines.append(pe.model_line(b, m) + "\tcert\t" + ((f[4] if len(f) > 4 else "") + (f[5] if len(f) > 5 else "")) + "\t" + f[1])
            idx.append(i)
        elif f[0] != "ERR":
            chk.violation("implementation crashed or was inconsistent on a program with function calls (%s)" % f[0],
                          {"kind": "fn-certificate", "program": tc, "budget": b, "static_opt": s, "matcher_opt": m, "impl": a[:1000]})
    ca = vlib.run_lines([R.model], lines)
    nfail = 0
    for i, c in zip(idx, ca):
        tc, pe, b, s, m, feats = cases[i]
        chk.nontriv(tc)
        if c != "CERT-OK":
            nfail += 1
            chk.violation("the implementation's result for a program with function calls is not self-consistent: recomputing every item "
                          "(calls replaced by their bodies) from its final symbol values does not reproduce the emitted bits",
                          {"kind": "fn-certificate", "program": tc, "substituted": pe.text(), "budget": b, "static_opt": s, "matcher_opt": m,
                           "impl": ia[i][:2000], "certificate": c, "features": sorted(feats)})
    chk.count("fn_certificates_on_impl_output", len(idx), programs=len(cases))


def replay(chk, rep):
    R = asm_streams.Runner(("debug",))
    r = rep.get("replay", rep)
    out = R.impl([(r["program"], r.get("budget", 10), r.get("static_opt", True), r.get("matcher_opt", True))])
    print("program:\n%s\nbudget %s\nimplementation now: %s\nrecorded: %s\nmodel: %s" % (r["program"], r.get("budget"), out[0], r.get("impl"), r.get("model")))
    return 0
