"""C09 — the iteration budget decides whether a program assembles, never to what.
Theorems: coq/Props/C09.v.  Stream: every generated program is assembled by the implementation under budgets
1,2,3,4,5,10,11,30; a success at budget b must be reproduced identically at every larger budget, and the reported
pass count must not exceed the budget.  Implementation = extracted model at every budget."""
import vlib, asm_gen, asm_streams
import sys, os
sys.path.insert(0, os.path.dirname(os.path.abspath(__file__)))
import ext_resolver2

BUDGETS = [1, 2, 3, 4, 5, 10, 11, 30]
RULE = ("G-isa x G-prog (static and cascading sizes, assertions) x budgets 1,2,3,4,5,10,11,30 x switch combinations: monotonicity of the "
        "implementation's own results across budgets (spec), pass count <= budget, implementation = extracted model at every budget; "
        "non-trivial = distinct program that fails at some budget and succeeds at a larger one, or needs >= 3 passes")


def run(chk):
    chk.rule = RULE
    chk.prove()
    R = asm_streams.Runner(("debug",))
    quick = chk.tier == "quick"
    n = 800 if quick else 8000
    rng = chk.rng.fork("c09")
    progs = []
    for i in range(n):
        p = asm_gen.gen_widthflip_prog(rng) if rng.chance(0.06) else asm_gen.gen_chain_prog(rng) if rng.chance(0.1) else asm_gen.gen_shift_prog(rng) if rng.chance(0.15) else asm_gen.gen_prog(rng, size_static=rng.chance(0.3), collide=rng.chance(0.2), boundary=rng.chance(0.1))
        progs.append((p, rng.chance(0.5), rng.chance(0.5)))
    icases, mcases = [], []
    for (p, s, m) in progs:
        t = p.text()
        for b in BUDGETS:
            icases.append((t, b, s, m))
            mcases.append((p, b, m))
    ia = R.impl(icases)
    ma = R.model_run(mcases)
    ndis = 0
    dist = {"always_ok": 0, "never_ok": 0, "budget_dependent": 0}
    k = len(BUDGETS)
    for pi, (p, s, m) in enumerate(progs):
        res = [asm_gen.canon_impl(x) for x in ia[pi * k:(pi + 1) * k]]
        mod = [asm_gen.canon_model(x) for x in ma[pi * k:(pi + 1) * k]]
        text = icases[pi * k][0]
        rep = {"kind": "budgets", "program": text, "static_opt": s, "matcher_opt": m, "budgets": BUDGETS,
               "impl": [str(asm_streams.sig(r))[:300] + " it=%s" % r[2] for r in res]}
        if any(r[0] not in ("OK", "ERR") for r in res):
            chk.violation("implementation crashed or was inconsistent at some budget", rep)
            continue
        oks = [j for j, r in enumerate(res) if r[0] == "OK"]
        if not oks:
            dist["never_ok"] += 1
        elif len(oks) == k:
            dist["always_ok"] += 1
        else:
            dist["budget_dependent"] += 1
            chk.nontriv(text)
        if oks and max(res[j][2] for j in oks) >= 3:
            chk.nontriv(text)
        bad = False
        for j in oks:
            if res[j][2] > BUDGETS[j]:
                chk.violation("reported %d passes with budget %d" % (res[j][2], BUDGETS[j]), rep); bad = True; break
            for j2 in range(j + 1, k):
                if asm_streams.sig(res[j2]) != asm_streams.sig(res[j]):
                    chk.violation("assembles with budget %d but budget %d gives a different outcome" % (BUDGETS[j], BUDGETS[j2]), rep)
                    bad = True
                    break
            if bad:
                break
        if bad:
            continue
        for j in range(k):
            r, mo = res[j], mod[j]
            if (r[0], r[1], r[2], r[3]) != (mo[0], mo[1], mo[2], mo[3]):
                ndis += 1
                # failing-input search: every budget 1..16 for this program
                full = list(range(1, 17))
                fr = [asm_gen.canon_impl(x) for x in R.impl([(text, b, s, m) for b in full])]
                hit = None
                for j1 in range(len(full)):
                    if fr[j1][0] == "OK":
                        for j2 in range(j1 + 1, len(full)):
                            if asm_streams.sig(fr[j2]) != asm_streams.sig(fr[j1]):
                                hit = (full[j1], full[j2]); break
                    if hit:
                        break
                if hit:
                    chk.violation("assembles with budget %d but budget %d gives a different outcome" % hit,
                                  dict(rep, budgets=full, impl=[str(asm_streams.sig(x))[:300] + " it=%s" % x[2] for x in fr]))
                    break
                chk.violation("model/implementation correspondence broken at budget %d: impl %s model %s" % (BUDGETS[j], str(r)[:200], str(mo)[:200]),
                              dict(rep, theorems=["C09_monotone", "C09_passes"]), found=False)
                break
        if pi % 200 == 5:
            chk.sample({"program": text, "results": rep["impl"]})
    chk.count("programs_x_budgets", len(icases), **dist)
    chk.cov["traces_validated_against_impl"] = len(icases)
    chk.cov["disagreements_checked"] = ndis
    ext_resolver2.run_streams(chk, quick, which=("budgets",))
    # programs with `asm` blocks (inner convergence loops): budget sweep 1..16 and 30 on the implementation
    import c17
    c17.budget_stream(chk, quick, R=R)
    cli_budget_stream(chk, quick, R)
    assert_directive_stream(chk, quick, R)


def assert_directive_stream(chk, quick, R):
    """`#assert` directives (outside the resolver models): budget sweep on the implementation.  Success at budget N must be
    reproduced identically at every larger budget, and a program whose assertion is false in the (unique, label values
    known in advance) final state never assembles, at any budget, under either static setting"""
    rng = chk.rng.fork("c09-assert")
    budgets = [1, 2, 3, 4, 6, 10]
    cases = []
    for _ in range(120 if quick else 1200):
        nb = rng.range(0, 4)
        lines, pos, labels = [], 0, {}
        static = rng.chance(0.4)          # label-free: converges in one pass with the static optimisation
        for i in range(nb):
            if not static and rng.chance(0.5):
                labels["l%d" % len(labels)] = pos
                lines.append("l%d:" % (len(labels) - 1))
            lines.append("#d8 %d" % rng.below(256)); pos += 1
        holds = rng.chance(0.5)
        kind = rng.below(3) if labels else rng.below(2)
        if kind == 0:
            a, b = rng.below(50), rng.below(50)
            cond = "%d %s %d" % (a, "<=" if (a <= b) == holds else ">", b)
        elif kind == 1:
            at = rng.range(0, len(lines))
            here = sum(1 for l in lines[:at] if l.startswith("#d8"))
            cond = "$ %s %d" % ("==" if holds else "!=", here)
            lines.insert(at, "#assert " + cond); cond = None
        else:
            n, v = rng.choice(sorted(labels.items()))
            cond = "%s %s %d" % (n, "==" if holds else "!=", v)
        if cond is not None:
            lines.insert(rng.range(0, len(lines)), "#assert " + cond)
        cases.append(("\n".join(lines) + "\n", holds, rng.chance(0.5)))
    ans = R.impl([(t, b, s, True) for (t, holds, s) in cases for b in budgets])
    nok = 0
    for i, (t, holds, s) in enumerate(cases):
        row = [asm_gen.canon_impl(a) for a in ans[i * len(budgets):(i + 1) * len(budgets)]]
        rep = {"kind": "assert-directive", "program": t, "static_opt": s, "matcher_opt": True, "assertion_holds": holds,
               "by_budget": {str(b): a[:200] for b, a in zip(budgets, ans[i * len(budgets):(i + 1) * len(budgets)])}}
        if any(c[0] not in ("OK", "ERR") for c in row):
            chk.violation("implementation crashed or was inconsistent on a program with an #assert directive", rep)
            continue
        oks = [j for j, c in enumerate(row) if c[0] == "OK"]
        if oks:
            nok += 1
            chk.nontriv(t)
        if oks and not holds:
            chk.violation("a program whose #assert is false assembles with budget %d" % budgets[oks[0]], dict(rep, budget=budgets[oks[0]]))
            continue
        if oks:
            first = oks[0]
            bad = [j for j in range(first, len(budgets)) if asm_streams.sig(row[j]) != asm_streams.sig(row[first])]
            if bad:
                chk.violation("a program with an #assert directive assembles with budget %d but not identically with the larger budget %d"
                              % (budgets[first], budgets[bad[0]]), dict(rep, budget=budgets[first]))
    chk.count("assert_directive_programs", len(cases), assemble_at_some_budget=nok)


def cli_budget_stream(chk, quick, R):
    """the budget the user gives on the command line is the budget the resolver gets, wherever `-t`/`--iters` stands
    (before or after the file, in the first or a later `--`-separated output group): the real binary must succeed
    exactly when the library entry point does at that budget, with the same bits and a reported pass count <= N"""
    import os, re, subprocess, tempfile, shutil
    exe = vlib.customasm_build(("debug",))["debug"]
    rng = chk.rng.fork("c09-cli")
    progs = []
    while len(progs) < (24 if quick else 150):
        p = asm_gen.gen_chain_prog(rng) if rng.chance(0.6) else asm_gen.gen_shift_prog(rng)
        progs.append(p.text())
    budgets = [1, 2, 3, 4, 12]
    lib = R.impl([(t, b, True, True) for t in progs for b in budgets])
    shapes = [
        lambda n: ["f.asm", "-t", str(n), "-f", "hexstr", "-o", "o1"],
        lambda n: ["--iters=%d" % n, "f.asm", "-f", "hexstr", "-o", "o1"],
        lambda n: ["-t", str(n), "f.asm", "-f", "hexstr", "-o", "o1", "--", "-f", "symbols", "-o", "o2"],
        lambda n: ["f.asm", "-f", "hexstr", "-o", "o1", "-t%d" % n, "--", "-f", "binary", "-o", "o2", "--", "-f", "annotated", "-o", "o3"],
        lambda n: ["f.asm", "-f", "hexstr", "-o", "o1", "--", "-t", str(n), "-f", "symbols", "-o", "o2"],
    ]
    tmp = tempfile.mkdtemp(prefix="c09cli", dir=vlib.CACHE)
    dist = {"ok": 0, "err": 0}
    nrun = 0
    try:
        for pi, t in enumerate(progs):
            with open(os.path.join(tmp, "f.asm"), "w") as f:
                f.write(t)
            for bi, b in enumerate(budgets):
                want = asm_gen.canon_impl(lib[pi * len(budgets) + bi])
                for si, sh in enumerate(shapes):
                    for o in ("o1", "o2", "o3"):
                        if os.path.exists(os.path.join(tmp, o)):
                            os.remove(os.path.join(tmp, o))
                    args = sh(b)
                    pr = subprocess.run([exe] + args, cwd=tmp, capture_output=True, text=True, timeout=60)
                    nrun += 1
                    m = re.search(r"resolved in (\d+) iteration", pr.stdout + pr.stderr)
                    got_ok = pr.returncode == 0
                    bits = None
                    if got_ok and os.path.exists(os.path.join(tmp, "o1")):
                        hx = open(os.path.join(tmp, "o1")).read().strip()
                        bits = "".join(bin(int(c, 16))[2:].zfill(4) for c in hx)
                    rep = {"kind": "cli-budget", "program": t, "budget": b, "args": args, "exit": pr.returncode,
                           "stdout": (pr.stdout + pr.stderr)[-600:], "library": lib[pi * len(budgets) + bi][:300]}
                    if got_ok != (want[0] == "OK"):
                        chk.violation("command line %s: the binary %s although the library entry point %s with budget %d"
                                      % (" ".join(args), "succeeds" if got_ok else "fails", "succeeds" if want[0] == "OK" else "fails", b), rep)
                    elif got_ok:
                        # hexstr pads to a whole hex digit
                        wb = want[1] + "0" * (-len(want[1]) % 4)
                        if bits != wb:
                            chk.violation("command line %s: output differs from the library's at budget %d" % (" ".join(args), b), rep)
                        elif m and int(m.group(1)) > b:
                            chk.violation("command line %s: reports %s passes with budget %d" % (" ".join(args), m.group(1), b), rep)
                    dist["ok" if got_ok else "err"] += 1
    finally:
        shutil.rmtree(tmp, ignore_errors=True)
    chk.count("cli_budget_runs", nrun, **{"cli_" + k: v for k, v in dist.items()})


def replay(chk, rep):
    R = asm_streams.Runner(("debug",))
    r = rep.get("replay", rep)
    out = R.impl([(r["program"], b, r.get("static_opt", True), r.get("matcher_opt", True)) for b in BUDGETS])
    print("program:\n%s" % r["program"])
    for b, o in zip(BUDGETS, out):
        print("budget %2d: %s" % (b, o[:200]))
    print("recorded:", r.get("impl"))
    return 0
