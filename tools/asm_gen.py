"""G-isa x G-prog x G-render: generated instruction sets and programs (structured), with renderings.
Used by C01, C02, C07, C08, C09.  Everything is driven by a vlib.Rng.

A program is kept STRUCTURED (so that renderings are produced from the pieces of the matching rule and the
argument expression texts, never by re-tokenising text):
  isa   : list of rule blocks; a rule = dict(m, ops, prod) with ops a list of operand specs
  items : ('label', name) | ('const', name, expr) | ('instr', rule_index, [arg texts]) |
          ('data', width or None, [exprs]) | ('res', expr) | ('align', expr) | ('addr', expr)
"""
import vlib

MNEMONICS = ['ld', 'ldx', 'l', 'ldr', 'add', 'addi', 'a', 'mov', 'jmp', 'j', 'halt', 'nop', 'st', 'inc', 'br', 'test', 'ld.w', 'st.b', 'jp(hl)', 'in(c)', 'a.b']


def mnemonic_tokens(m):
    """pattern tokens of a mnemonic spelled without blanks (`ld.w` -> ld . w)"""
    import re
    return re.findall(r'[A-Za-z_][A-Za-z0-9_]*|[0-9]+|.', m)
REGS = ['a', 'b', 'r0', 'r1', 'sp', 'hl']
SUBS = ['reg', 'cond']


class Isa:
    def __init__(self):
        self.subs = []     # (name, [(pattern_text, prod)])
        self.rules = []    # dict(m=, ops=[...], prod=, cascade=bool)
        self.cuts = None   # base partition of the rules into #ruledef blocks (list of cut points), None = one block

    def text(self, order=None, blocks=1, rng=None):
        """rule-block text; `order` permutes the (non-sub) rules, `blocks` splits them into several #ruledef blocks"""
        out = []
        for name, rs in self.subs:
            out.append('#subruledef %s\n{\n%s\n}\n' % (name, '\n'.join('    %s => %s' % r for r in rs)))
        idx = list(range(len(self.rules))) if order is None else list(order)
        cuts = [0, len(idx)]
        if blocks > 1 and len(idx) > 1 and rng is not None:
            cuts = sorted(set([0, len(idx)] + [rng.range(1, len(idx) - 1) for _ in range(blocks - 1)]))
        elif blocks == 1 and order is None and self.cuts:
            cuts = self.cuts
        for a, b in zip(cuts, cuts[1:]):
            out.append('#ruledef\n{\n%s\n}\n' % '\n'.join('    ' + rule_text(self.rules[i]) for i in idx[a:b]))
        return ''.join(out)


def op_pattern(o):
    k = o[0]
    if k == 'reg':
        return o[1]
    if k == 'expr':
        _, name, typ, wrap = o
        inner = '{%s%s}' % (name, (': ' + typ) if typ else '')
        return wrap[0] + inner + wrap[1]
    if k in ('sub', 'gsub'):
        return '{%s: %s}' % (o[1], o[2])
    raise ValueError(k)


def rule_text(r):
    ops = list(r['ops'])
    pat = r['m']
    if ops and ops[0][0] == 'gsub':            # sub-rule parameter glued to the mnemonic: `j{c: cond} ...`
        pat += op_pattern(ops.pop(0))
    pat += ((' ' + ', '.join(op_pattern(o) for o in ops)) if ops else '')
    return pat + ' => ' + r['prod']


def gen_isa(rng, size_static=True, collide=False):
    isa = Isa()
    if rng.chance(0.45):
        isa.subs.append(('reg', [(r, '0x%x' % i) for i, r in enumerate(REGS[:rng.range(2, 5)])]))
    if rng.chance(0.35):
        isa.subs.append(('cond', [('z', '0b00'), ('nz', '0b01'), ('c', '0b10')]))
    if rng.chance(0.3):
        # a sub-rule set whose alternatives carry expression parameters (the parameter may be named like a symbol of the program)
        an = rng.choice(['a', 'a', 'k0', 'val']) if collide else 'a'
        isa.subs.append(('mem', [('[{%s: u8}]' % an, an), ('{%s: u8}' % an, an), ('#{%s}' % an, '%s`8' % an)][:rng.range(1, 3)]))
    pn = ['x', 'y'] if not collide else ['x', 'y', 'k0', 'k1', 'val']
    n = rng.range(2, 7)
    for _ in range(n):
        m = rng.choice(MNEMONICS)
        k = rng.below(100)
        op8 = '0x%02x' % rng.below(256)
        if k < 12:
            isa.rules.append(dict(m=m, ops=[], prod=op8))
        elif k < 40:
            typ = rng.choice([None, 'u8', 's8', 'i8', 'u16', 'u4', 'i16', 's4'])
            p = rng.choice(pn)
            if typ:
                prod = '%s @ %s' % (op8, p)
            else:
                prod = rng.choice(['%s @ %s`8', '%s @ %s`16', '%s @ le(%s`16)', '%s @ %s[7:0]', '%s @ (%s + 1)`8']) % (op8, p)
            wrap = rng.weighted([(('', ''), 56), (('(', ')'), 10), (('[', ']'), 10), (('#', ''), 10), (('r', ''), 8), (('', 'h'), 6)])
            isa.rules.append(dict(m=m, ops=[('expr', p, typ, wrap)], prod=prod))
            if wrap == ('r', '') and rng.chance(0.6):
                # a dedicated rule spelling one register number literally inside the same token
                isa.rules.append(dict(m=m, ops=[('reg', 'r%d' % rng.choice([1, 7, 15]))], prod='0x%04x' % rng.below(65536)))
        elif k < 55 and isa.subs:
            sub = rng.choice(isa.subs)[0]
            w = {'reg': 4, 'cond': 2, 'mem': 8}[sub]
            first = rng.chance(0.6)
            e1 = ('expr', rng.choice(pn), rng.choice([None, 'u8']), ('', ''))
            ops = [('sub', 'r', sub), e1] if first else [e1, ('sub', 'r', sub)]
            isa.rules.append(dict(m=m, ops=ops, prod='0x%x @ r`%d @ %s`8' % (rng.below(16), w, e1[1])))
            if sub == 'cond' and rng.chance(0.75):
                # the condition glued to the mnemonic, next to a dedicated longer mnemonic
                isa.rules.append(dict(m=m, ops=[('gsub', 'c', 'cond'), ('expr', 'a', 'u8', ('', ''))], prod='0x4 @ c`4 @ a'))
                isa.rules.append(dict(m=m + 'z', ops=[('expr', 'a', 'u16', ('', ''))], prod='0xf0 @ a'))
        elif k < 68:
            isa.rules.append(dict(m=m, ops=[('expr', 'x', None, ('', '')), ('expr', 'y', rng.choice([None, 'u8']), ('', ''))],
                                  prod='%s @ x`8 @ y`8' % op8))
        elif k < 82 and not size_static:
            # cascading family: the size depends on the operand value
            op = rng.below(255)
            isa.rules.append(dict(m=m, ops=[('expr', 'x', None, ('', ''))], prod='{ assert(x < 0x10), 0x%02x @ x`8 }' % op, cascade=True))
            isa.rules.append(dict(m=m, ops=[('expr', 'x', None, ('', ''))], prod='{ assert(x >= 0x10), 0x%02x @ x`16 }' % (op + 1), cascade=True))
        elif k < 86 and not size_static:
            # constant encodings of different sizes selected by assertions on the operand
            t = rng.choice([3, 0x10, 0x80])
            isa.rules.append(dict(m=m, ops=[('expr', 'x', None, ('', ''))], prod='{ assert(x < %d), 0x%02x }' % (t, rng.below(256)), cascade=True))
            isa.rules.append(dict(m=m, ops=[('expr', 'x', None, ('', ''))], prod='{ assert(x >= %d), 0x%04x }' % (t, rng.below(65536)), cascade=True))
        elif k < 89 and not size_static:
            # two candidates for the same text, one statically sized, one whose size depends on a value or whose
            # constraint reads a symbol of the program
            v = rng.below(3)
            if v == 0:
                isa.rules.append(dict(m=m, ops=[('expr', 'x', None, ('', ''))], prod='0x%04x' % rng.below(65536), cascade=True))
                isa.rules.append(dict(m=m, ops=[('expr', 'x', None, ('', ''))], prod='x < %d ? 0x%02x : 0x%06x' % (rng.choice([5, 0x10]), rng.below(256), rng.below(1 << 24)), cascade=True))
            elif v == 1:
                g = rng.choice(['l0', 'l1', 'k0'])
                isa.rules.append(dict(m=m, ops=[('expr', 'v', 'u8', ('', ''))], prod='0x02 @ 0x00 @ v', cascade=True))
                isa.rules.append(dict(m=m, ops=[('expr', 'v', 'u8', ('', ''))], prod='{ assert(%s < %d), 0x01 @ v }' % (g, rng.choice([4, 0x10, 0x100])), cascade=True))
            else:
                isa.rules.append(dict(m=m, ops=[('expr', 'x', None, ('', ''))], prod='{ assert(x < 0x20), 0x%02x @ x`8 }' % rng.below(256), cascade=True))
                isa.rules.append(dict(m=m, ops=[('expr', 'x', None, ('', ''))], prod='0x%02x @ x`16' % rng.below(256), cascade=True))
        elif k < 92 and not size_static:
            # typed-width family
            op = rng.below(255)
            isa.rules.append(dict(m=m, ops=[('expr', 'x', 'u4', ('', ''))], prod='0x%x @ x' % (op & 15), cascade=True))
            isa.rules.append(dict(m=m, ops=[('expr', 'x', 'u12', ('', ''))], prod='0x%x @ x' % ((op + 1) & 15), cascade=True))
        else:
            isa.rules.append(dict(m=m, ops=[('reg', rng.choice(REGS)), ('expr', 'x', 'u8', ('', ''))], prod='%s @ x' % op8))
    # base partition into 1-3 #ruledef blocks (families may straddle blocks, with equal rule indices in different blocks)
    nb = rng.weighted([(1, 45), (2, 35), (3, 20)])
    if nb > 1 and len(isa.rules) > 1:
        isa.cuts = sorted(set([0, len(isa.rules)] + [rng.range(1, len(isa.rules) - 1) for _ in range(nb - 1)]))
    return isa


class Prog:
    def __init__(self, isa):
        self.isa = isa
        self.items = []
        self.names = []        # symbols in declaration order

    # ----- rendering
    def render_instr(self, it, style=None, rng=None):
        _, ri, args = it
        r = self.isa.rules[ri]
        mt = mnemonic_tokens(r['m'])
        pieces = [('lit', mt[0])] + [('mtok', t) for t in mt[1:]]
        ai = 0
        ops = list(r['ops'])
        if ops and ops[0][0] == 'gsub':
            pieces.append(('glued', args[ai])); ai += 1
            ops.pop(0)
        first_op = len(pieces)
        for j, o in enumerate(ops):
            if j > 0:
                pieces.append(('sep', ','))
            if o[0] == 'reg':
                pieces.append(('lit', o[1]))
            elif o[0] == 'expr':
                if o[3][0]:
                    pieces.append(('punct', o[3][0]))
                pieces.append(('arg', args[ai])); ai += 1
                if o[3][1]:
                    pieces.append(('punct', o[3][1]))
            else:
                pieces.append(('arg', args[ai])); ai += 1
        out = []
        for j, (k, t) in enumerate(pieces):
            if k in ('lit', 'mtok', 'glued') and style and style.get('case') and rng:
                t = ''.join(c.upper() if rng.chance(0.5) else c.lower() for c in t) if style['case'] == 'mixed' else t.upper()
            if k == 'punct' and t.isalpha() and style and style.get('case') and rng:
                t = t.upper()
            gap = ''
            if j > 0:
                need = (j == first_op) or pieces[j - 1][0] == 'sep'   # after the mnemonic / after a comma: the rule has a blank there
                if pieces[j - 1][0] == 'punct' or k == 'sep' or (k == 'punct' and pieces[j - 1][0] == 'arg') or k in ('mtok', 'glued'):
                    need = False
                gap = ' ' if need else ''
                if style and rng and style.get('space'):
                    extra = rng.weighted([('', 40), (' ', 20), ('  ', 10), ('\t', 10), (' ;* c *; ', 10 if style.get('comments') else 0), (';* c *;', 5 if style.get('comments') else 0)])
                    if need:
                        gap = extra if extra.strip(' \t') or extra else ' '
                        if gap == '':
                            gap = ' '
                        elif not (gap[0] in ' \t' or gap.startswith(';*')):
                            gap = ' ' + gap
                    elif k == 'glued' or (k == 'punct' and t.isalpha()):
                        gap = ''                     # glued to the previous token: `jz`, `10h`
                    elif k == 'arg' and pieces[j - 1][0] == 'punct' and (pieces[j - 1][1][-1].isalnum() or pieces[j - 1][1][-1] == '_') \
                            and t[:1] and (t[0].isalnum() or t[0] == '_'):
                        gap = ''                     # `r7` is ONE token: a blank inside it is not a blank between tokens
                    else:
                        # a blank may be inserted at a token boundary where the rule has no whitespace part to satisfy
                        gap = extra if k != 'punct' or pieces[j - 1][0] not in ('lit', 'mtok') else ''
            out.append(gap + t)
        s = ''.join(out)
        if style and rng and style.get('trailing') and rng.chance(0.5):
            s += rng.choice([' ; trailing', '\t;x', ' ;* end *;'])
        return s

    def lines(self, style=None, rng=None, rename=None):
        ren = (lambda s: s) if not rename else (lambda s: rename_text(s, rename))
        out = []
        for it in self.items:
            k = it[0]
            if k == 'label':
                out.append(ren(it[1]) + ':')
            elif k == 'const':
                out.append('%s = %s' % (ren(it[1]), ren(it[2])))
            elif k == 'instr':
                out.append(self.render_instr((it[0], it[1], [ren(a) for a in it[2]]), style, rng))
            elif k == 'data':
                out.append('#d%s %s' % ('' if it[1] is None else it[1], ', '.join(ren(e) for e in it[2])))
            elif k == 'res':
                out.append('#res ' + ren(it[1]))
            elif k == 'align':
                out.append('#align ' + ren(it[1]))
            elif k == 'addr':
                out.append('#addr ' + ren(it[1]))
        return out

    def variant(self, style=None, rng=None, rename=None, order=None, blocks=1):
        """one rendering of the program: (text for the implementation, structured line for ocaml/asm_driver given budget/indexed)"""
        ren = (lambda x: x) if not rename else (lambda x: rename_text(x, rename))
        isa_text = self.isa.text(order, blocks, rng)
        lines, nodes = [], []
        names = [ren(n) for n in self.names]
        idx = {n: i for i, n in enumerate(self.names)}
        for it in self.items:
            k = it[0]
            if k == 'label':
                lines.append(ren(it[1]) + ':'); nodes.append('L:%d' % idx[it[1]])
            elif k == 'const':
                lines.append('%s = %s' % (ren(it[1]), ren(it[2]))); nodes.append('C:%d:%s' % (idx[it[1]], vlib.hx(ren(it[2]))))
            elif k == 'instr':
                src = self.render_instr((it[0], it[1], [ren(a) for a in it[2]]), style, rng)
                lines.append(src)
                # the parser hands the matcher the line without its trailing comment / line break
                nodes.append('I:' + vlib.hx(strip_trailing_comment(src)))
            elif k == 'data':
                lines.append('#d%s %s' % ('' if it[1] is None else it[1], ', '.join(ren(e) for e in it[2])))
                nodes.append('D:%s:%s' % ('-' if it[1] is None else it[1], ','.join(vlib.hx(ren(e)) for e in it[2])))
            elif k in ('res', 'align', 'addr'):
                lines.append('#%s %s' % (k, ren(it[1])))
                nodes.append('%s:%s' % ({'res': 'S', 'align': 'A', 'addr': '@'}[k], vlib.hx(ren(it[1]))))
        text = isa_text + '\n'.join(lines) + '\n'

        def model_line(budget, indexed):
            return '\t'.join([str(budget), '1' if indexed else '0', vlib.hx(isa_text), ' '.join(vlib.hx(n) for n in names), ';'.join(nodes)])
        return text, model_line

    def text(self, style=None, rng=None, rename=None, order=None, blocks=1):
        return self.isa.text(order, blocks, rng) + '\n'.join(self.lines(style, rng, rename)) + '\n'

    def model_line(self, budget, indexed):
        """structured form for ocaml/asm_driver (plain rendering)"""
        nodes = []
        idx = {n: i for i, n in enumerate(self.names)}
        for it in self.items:
            k = it[0]
            if k == 'label':
                nodes.append('L:%d' % idx[it[1]])
            elif k == 'const':
                nodes.append('C:%d:%s' % (idx[it[1]], vlib.hx(it[2])))
            elif k == 'instr':
                nodes.append('I:' + vlib.hx(self.render_instr(it)))
            elif k == 'data':
                nodes.append('D:%s:%s' % ('-' if it[1] is None else it[1], ','.join(vlib.hx(e) for e in it[2])))
            elif k == 'res':
                nodes.append('S:' + vlib.hx(it[1]))
            elif k == 'align':
                nodes.append('A:' + vlib.hx(it[1]))
            elif k == 'addr':
                nodes.append('@:' + vlib.hx(it[1]))
        return '\t'.join([str(budget), '1' if indexed else '0', vlib.hx(self.isa.text()), ' '.join(vlib.hx(n) for n in self.names), ';'.join(nodes)])


def strip_trailing_comment(src):
    """what AstInstruction.src holds for a rendered line: up to the line's last non-ignorable token"""
    out, i, depth = [], 0, 0
    keep = 0
    while i < len(src):
        if src.startswith(';*', i):
            j = src.find('*;', i + 2)
            j = len(src) if j < 0 else j + 2
            out.append(src[i:j]); i = j
            continue
        if src[i] == ';':
            break
        out.append(src[i])
        if src[i] not in ' \t':
            keep = len(''.join(out))
        i += 1
    return ''.join(out)[:keep]


def rename_text(s, mapping):
    import re
    return re.sub(r'[A-Za-z_][A-Za-z0-9_]*', lambda m: mapping.get(m.group(0), m.group(0)), s)


def gen_prog(rng, size_static=True, collide=False, boundary=False, tame=True):
    isa = gen_isa(rng, size_static, collide)
    p = Prog(isa)
    labels = ['l%d' % i for i in range(rng.range(1, 5))]
    consts = ['k%d' % i for i in range(rng.range(0, 3))]
    if collide and rng.chance(0.7):
        consts = consts + [rng.choice(['x', 'y'])]
    if collide and rng.chance(0.5):
        consts = consts + [rng.choice(['a', 'val'])]
    allsyms = labels + consts
    # boolean constants (comparisons of symbols), consumed by ternaries
    bools = ['b%d' % i for i in range(rng.weighted([(0, 55), (1, 30), (2, 15)]))]

    def expr(d=0):
        k = rng.below(100)
        if bools and d < 3 and rng.chance(0.12):
            return '(%s ? %s : %s)' % (rng.choice(bools), expr(d + 1), expr(d + 1))
        if k < 30:
            return str(rng.below(16 if tame and rng.chance(0.8) else 300))
        if k < 40:
            return '0x%x' % rng.below(1 << (4 if tame and rng.chance(0.7) else rng.choice([4, 8, 12, 16])))
        if k < 70:
            return rng.choice(allsyms)
        if k < 75:
            return '$'
        if k < 92 and d < 3:
            return expr(d + 1) + rng.choice([' + ', ' + ', ' - ', ' * '] if not tame else [' + ', ' + ', ' + ', ' * ']) + expr(d + 1)
        if d < 3:
            return '(' + expr(d + 1) + ')'
        return str(rng.below(10))

    def typed_boundary(typ):
        n = int(typ[1:]); k = typ[0]
        if k == 'u':
            bs = [0, 2 ** n]
        elif k == 's':
            bs = [-(2 ** (n - 1)), 2 ** (n - 1)]
        else:
            bs = [-(2 ** (n - 1)), 2 ** n]
        v = rng.choice(bs) + rng.range(-1, 0) + rng.below(2)
        return str(v) if v >= 0 else '-%d' % (-v)

    def arg_for(o):
        if o[0] in ('sub', 'gsub'):
            import re
            sub = [s for s in isa.subs if s[0] == o[2]][0]
            pat = rng.choice(sub[1])[0]
            # alternatives with an expression parameter are instantiated with an expression (parenthesised when compound)
            def inst(mo):
                e = str(rng.below(100)) if (tame and rng.chance(0.5)) else expr()
                return e if re.fullmatch(r'[A-Za-z0-9_$]+', e) else '(' + e + ')'
            return re.sub(r'\{[^}]*\}', inst, pat)
        typ = o[2]
        if typ and boundary and rng.chance(0.6):
            return typed_boundary(typ)
        if typ and tame and rng.chance(0.7):
            n = int(typ[1:])
            return str(rng.below(2 ** (n - 1)))
        return expr()

    pend_l, pend_c = list(labels), list(consts)
    pend_b = list(bools)
    # constants holding an assertion (void when it holds; a failed one is an error on the final pass, F77)
    pend_v = ['v%d' % i for i in range(rng.weighted([(0, 85), (1, 12), (2, 3)]))]

    def bool_expr():
        return '%s %s %d' % (rng.choice(allsyms), rng.choice(['<', '>', '<=', '>=', '==', '!=']), rng.below(24))
    def assert_expr():
        c = bool_expr() if rng.chance(0.7) else '$ %s %d' % (rng.choice(['<', '>=']), rng.below(12))
        if rng.chance(0.6):
            # mostly true
            c = '%s %s %d' % (rng.choice(allsyms + ['$']), rng.choice(['<', '<=']), 200 + rng.below(100))
        return 'assert(%s)' % c if rng.chance(0.7) else 'assert(%s, "m")' % c
    n = rng.range(3, 12)
    for i in range(n):
        k = rng.below(100)
        if pend_l and k < 25:
            l = pend_l.pop(0); p.names.append(l); p.items.append(('label', l))
        elif pend_c and k < 35:
            c = pend_c.pop(0); p.names.append(c); p.items.append(('const', c, expr()))
        elif pend_b and k < 40:
            c = pend_b.pop(0); p.names.append(c); p.items.append(('const', c, bool_expr()))
        elif pend_v and k < 43:
            c = pend_v.pop(0); p.names.append(c); p.items.append(('const', c, assert_expr()))
        elif k < 75:
            ri = rng.below(len(isa.rules))
            r = isa.rules[ri]
            p.items.append(('instr', ri, [arg_for(o) for o in r['ops'] if o[0] != 'reg']))
        elif k < 88:
            w = rng.choice([8, 16, 32, 24] if tame and rng.chance(0.8) else [8, 16, 4, 32, 1, 3, 24])
            p.items.append(('data', w, [expr() for _ in range(rng.range(1, 3))]))
        elif k < 90:
            p.items.append(('data', None, ['0x%02x @ (%s)`8' % (rng.below(256), expr())]))
        elif k < 94:
            p.items.append(('res', str(rng.below(4))))
        elif k < 98:
            p.items.append(('align', str(rng.choice([8, 16, 32, 64]))))
        else:
            p.items.append(('addr', '0x%x' % (0x100 * (i + 1))))
    for l in pend_l:
        p.names.append(l); p.items.append(('label', l))
    for c in pend_c:
        p.names.append(c); p.items.append(('const', c, expr()))
    for c in pend_b:
        p.names.append(c); p.items.append(('const', c, bool_expr()))
    for c in pend_v:
        p.names.append(c); p.items.append(('const', c, assert_expr()))
    return p


def parse_symbols(hex_text):
    """format_default text -> 'name=hex;...' in the model's notation"""
    t = vlib.unhx(hex_text)
    out = []
    for line in t.split('\n'):
        if ' = 0x' in line:
            n, v = line.split(' = 0x', 1)
            out.append('%s=%s' % (n.strip(), v.strip()))
    return ';'.join(out)


def canon_impl(ans):
    """asmtext answer -> (class, bits, iterations, symbols)"""
    f = ans.split('\t')
    if f[0] == 'OK':
        return ('OK', f[1], int(f[2]), parse_symbols(f[3]) if len(f) > 3 else '')
    if f[0] == 'ERR':
        return ('ERR', None, None, None)
    return (f[0], None, None, None)


def canon_model(ans):
    f = ans.split('\t')
    if f[0] == 'OK':
        return ('OK', f[1], int(f[2]), f[3] if len(f) > 3 else '')
    return (f[0], None, None, None)


def gen_shift_prog(rng):
    """directed family for stale guesses: a label whose first-pass guess is larger than its final value, used by an
    instruction whose encoding choice flips between the guess and the final value"""
    isa = Isa()
    t1 = rng.choice([8, 0x10, 0x40])
    o1, o2 = rng.below(256), rng.below(256)
    isa.rules.append(dict(m='big', ops=[('expr', 'v', None, ('', ''))], prod='{ assert(v < %d), 0x%02x @ v`8 }' % (t1, o1), cascade=True))
    isa.rules.append(dict(m='big', ops=[('expr', 'v', None, ('', ''))], prod='{ assert(v >= %d), 0x%02x @ v`16 }' % (t1, o2), cascade=True))
    k = rng.range(1, 3)
    d = rng.range(0, 2)
    lo, hi = 2 * k + d, 3 * k + d          # final value .. first-pass guess of the operand `back + d`
    t2 = rng.range(lo + 1, hi)
    fam = rng.below(4)
    pn = rng.choice(['v', 'x', 'k0'])
    if fam == 0:
        isa.rules.append(dict(m='tst', ops=[('expr', pn, None, ('', ''))], prod='{ assert(%s < %d), 0x%02x }' % (pn, t2, rng.below(256)), cascade=True))
        isa.rules.append(dict(m='tst', ops=[('expr', pn, None, ('', ''))], prod='{ assert(%s >= %d), 0x%04x }' % (pn, t2, rng.below(65536)), cascade=True))
    elif fam == 1:
        isa.rules.append(dict(m='tst', ops=[('expr', pn, None, ('', ''))], prod='{ assert(%s < %d), 0x%02x @ %s`8 }' % (pn, t2, rng.below(256), pn), cascade=True))
        isa.rules.append(dict(m='tst', ops=[('expr', pn, None, ('', ''))], prod='{ assert(%s >= %d), 0x%02x @ %s`16 }' % (pn, t2, rng.below(256), pn), cascade=True))
    elif fam == 2:
        isa.rules.append(dict(m='tst', ops=[('expr', pn, None, ('', ''))], prod='0x%02x @ %s`8' % (rng.below(256), pn)))
    else:
        isa.rules.append(dict(m='tst', ops=[('expr', pn, None, ('', ''))], prod='(%s < %d) ? 0x%02x : 0x%04x' % (pn, t2, rng.below(256), rng.below(65536)), cascade=True))
    if rng.chance(0.5) and len(isa.rules) > 2:
        isa.cuts = [0, rng.range(1, len(isa.rules) - 1), len(isa.rules)]
    p = Prog(isa)
    big = [i for i, r in enumerate(isa.rules) if r['m'] == 'big']
    tst = [i for i, r in enumerate(isa.rules) if r['m'] == 'tst']
    for _ in range(k):
        p.items.append(('instr', big[0], ['fwd']))
    p.names.append('back'); p.items.append(('label', 'back'))
    p.items.append(('instr', tst[0], ['back + %d' % d if d else 'back']))
    if rng.chance(0.4):
        p.items.append(('data', 8, ['back', 'fwd']))
    p.names.append('fwd'); p.items.append(('label', 'fwd'))
    if rng.chance(0.5):
        # a constant named like the rule parameter (exercises the static-value analysis)
        p.names.append(pn if pn == 'k0' else 'k0'); p.items.append(('const', p.names[-1], str(rng.below(200))))
    if rng.chance(0.3):
        p.items.append(('data', 16, ['fwd + back']))
    return p


def gen_chain_prog(rng):
    """directed family for convergence latency: a boolean (or integer) constant that reads a label through a chain of
    constants declared in reverse order, so that a change of the label reaches it several passes later, with a
    consumer placed before it"""
    isa = Isa()
    isa.rules.append(dict(m='ld', ops=[('expr', 'x', None, ('', ''))], prod='{ assert(x <= 0x8), 0x11 @ x`16 }', cascade=True))
    isa.rules.append(dict(m='ld', ops=[('expr', 'x', None, ('', ''))], prod='{ assert(x > 0x8), 0x22 @ x`8 }', cascade=True))
    p = Prog(isa)
    k = rng.range(1, 4)
    nld = rng.range(1, 3)
    pad = rng.choice([0, 1, 4])
    base = 1 + pad                      # bytes before the ld's
    final, guess = base + 2 * nld, base + 3 * nld
    if rng.chance(0.5):
        final, guess = guess, final     # either direction happens depending on the operand; the threshold sits between
    thr = rng.range(min(final, guess), max(final, guess) - 1)
    boolean = rng.chance(0.7)
    # consumer first
    if boolean:
        p.items.append(('data', 8, ['far ? 0xaa : 0x55']))
    else:
        p.items.append(('data', 8, ['far']))
    if pad:
        p.items.append(('data', 8 * pad, ['0']))
    p.names.append('far'); p.items.append(('const', 'far', ('t%d > %d' % (k, thr)) if boolean else 't%d' % k))
    for i in range(k, 0, -1):
        p.names.append('t%d' % i); p.items.append(('const', 't%d' % i, ('t%d' % (i - 1)) if i > 1 else 'target'))
    for _ in range(nld):
        p.items.append(('instr', 0, ['d']))
    p.names.append('target'); p.items.append(('label', 'target'))
    p.names.append('d'); p.items.append(('const', 'd', 'd1'))
    p.names.append('d1'); p.items.append(('const', 'd1', 'target'))
    if rng.chance(0.3):
        p.items.append(('data', 8, ['far ? 1 : 2'] if boolean else ['far + 1']))
    return p


def gen_tie_prog(rng):
    """directed family for the rejection class 'two equally small rules match': the same pattern twice with equal
    static sizes, in the same block or at the same rule index of two different blocks"""
    isa = Isa()
    m = rng.choice(['ld', 'mov', 'inc', 'st.b'])
    shape = rng.below(3)
    if shape == 0:
        mk = lambda op: dict(m=m, ops=[('expr', 'x', None, ('', ''))], prod='0x%02x @ x`8' % op)
    elif shape == 1:
        mk = lambda op: dict(m=m, ops=[('reg', 'a')], prod='0x%02x' % op)
    else:
        mk = lambda op: dict(m=m, ops=[('expr', 'x', 'u8', ('', ''))], prod='0x%02x @ x' % op)
    pre = rng.range(0, 2)
    for i in range(pre):
        isa.rules.append(dict(m='nop%d' % i, ops=[], prod='0x%02x' % rng.below(256)))
    isa.rules.append(mk(rng.below(256)))
    split = len(isa.rules)
    for i in range(pre):
        isa.rules.append(dict(m='hlt%d' % i, ops=[], prod='0x%02x' % rng.below(256)))
    isa.rules.append(mk(rng.below(256)))
    if rng.chance(0.7):
        isa.cuts = [0, split, len(isa.rules)]      # same rule index in two blocks
    p = Prog(isa)
    p.names.append('l0'); p.items.append(('label', 'l0'))
    r = isa.rules[pre]
    p.items.append(('instr', pre, [str(rng.below(200))] if any(o[0] == 'expr' for o in r['ops']) else []))
    if rng.chance(0.5):
        p.items.append(('data', 8, ['l0']))
    return p


def gen_scope_prog(rng):
    """directed family for evaluation scope: an expression inside a sub-rule operand names a symbol of the program that
    has the same name as a parameter of the enclosing rule (the operand must see the PROGRAM's symbol)"""
    isa = Isa()
    pname = rng.choice(['val', 'x', 'k0', 'src'])
    an = rng.choice(['a', pname])
    isa.subs.append(('mem', [('[{%s: u8}]' % an, an), ('#{%s: u8}' % an, an)][:rng.range(1, 2)]))
    first = rng.chance(0.7)
    e1 = ('expr', pname, 'u8', ('', ''))
    ops = [e1, ('sub', 'd', 'mem')] if first else [('sub', 'd', 'mem'), e1]
    isa.rules.append(dict(m=rng.choice(['mov', 'st', 'ld']), ops=ops, prod='0x10 @ %s @ d`8' % pname))
    if rng.chance(0.5):
        isa.rules.append(dict(m='nop', ops=[], prod='0x00'))
    p = Prog(isa)
    v1, v2 = rng.below(200), rng.below(200)
    p.names.append(pname)
    decl = ('const', pname, str(v1)) if rng.chance(0.6) else ('label', pname)
    items = [decl]
    pat = rng.choice(isa.subs[0][1])[0]
    import re
    operand = re.sub(r'\{[^}]*\}', lambda mo: rng.choice([pname, pname + ' + 1', '(%s)' % pname]), pat)
    args = [str(v2), operand] if first else [operand, str(v2)]
    items.append(('instr', 0, args))
    if rng.chance(0.5):
        items.reverse()
    p.items = items
    return p


def gen_frozen_prog(rng):
    """directed family for the static-value shortcut (F72): a typed parameter that the production does not read (or
    reads only through its width), given a label whose first-pass guess is in range and whose final value is not,
    because something in front of it only gets its size in pass 2"""
    isa = Isa()
    n = rng.range(1, 3)
    kind = rng.choice(['u', 's', 'i'])
    shape = rng.below(3)
    prod = ['0x%02x' % rng.below(256), '0x%02x @ 0x%02x' % (rng.below(256), rng.below(256)), '{ assert(1 == 1), 0x%02x }' % rng.below(256)][shape]
    isa.rules.append(dict(m='ld', ops=[('expr', 'x', '%s%d' % (kind, n), ('', ''))], prod=prod))
    if rng.chance(0.6):
        isa.rules.append(dict(m='ld', ops=[('expr', 'x', rng.choice(['u16', 'i16', None]), ('', ''))], prod='0x%04x @ x`16' % rng.below(65536)
                              if rng.chance(0.5) else '0x%04x' % rng.below(65536)))
    if rng.chance(0.5):
        isa.rules.append(dict(m='nop', ops=[], prod='0x00'))
    p = Prog(isa)
    p.names += ['lbl', 'fwd']
    k = rng.range(0, 6)
    items = []
    front = rng.below(3)
    if front == 0:
        items.append(('res', 'fwd - fwd + %d' % k))
    elif front == 1:
        items.append(('data', 8, ['0'] * 1))
        items.append(('res', '(fwd > 0 ? %d : 0)' % k))
    else:
        items.append(('align', '(fwd - fwd + %d) * 8' % max(k, 1)))
        items.insert(0, ('data', 8, ['0']))
    items.append(('label', 'lbl'))
    items.append(('instr', 0, [rng.choice(['lbl', 'lbl + 0', 'lbl * 1', 'fwd - lbl'])]))
    if rng.chance(0.4):
        items.append(('data', 8, ['lbl']))
    items.append(('label', 'fwd'))
    p.items = items
    return p


def gen_pcassert_prog(rng):
    """directed family: candidates of EQUAL size selected by assertions that read the current address, used with literal
    arguments behind something that only gets its size in pass 2 (the instruction's pass-1 address is a pessimistic
    guess): the choice made in pass 1 must be revisited"""
    isa = Isa()
    pn = rng.choice(['a', 'x', 'v'])
    o1, o2 = rng.below(256), rng.below(256)
    rel = rng.below(3)
    c1, c2 = [('%s < $' % pn, '%s >= $' % pn), ('$ - %s > 0' % pn, '$ - %s <= 0' % pn), ('%s + 1 <= $' % pn, '%s + 1 > $' % pn)][rel]
    tail = rng.choice(['%s`8' % pn, '(%s)`8' % pn, '0x%02x' % rng.below(256)])
    isa.rules.append(dict(m='jmp', ops=[('expr', pn, None, ('', ''))], prod='{ assert(%s), 0x%02x @ %s }' % (c1, o1, tail), cascade=True))
    isa.rules.append(dict(m='jmp', ops=[('expr', pn, None, ('', ''))], prod='{ assert(%s), 0x%02x @ %s }' % (c2, o2, tail), cascade=True))
    if rng.chance(0.5):
        isa.rules.append(dict(m='nop', ops=[], prod='0x00'))
    p = Prog(isa)
    p.names += ['fwd']
    k = rng.range(2, 7)
    items = []
    front = rng.below(3)
    if front == 0:
        items.append(('res', 'fwd - fwd + %d' % k))
    elif front == 1:
        items.append(('res', '(fwd > 0 ? %d : 0)' % k))
    else:
        p.names.append('pad')
        items.append(('res', 'pad'))
    n = rng.range(1, 3)
    for _ in range(n):
        items.append(('instr', 0, [str(rng.range(0, k + 2 * n))]))
    if rng.chance(0.4):
        items.append(('data', 8, ['fwd']))
    items.append(('label', 'fwd'))
    if front == 2:
        items.append(('const', 'pad', 'fwd - fwd + %d' % k))
    p.items = items
    return p


def gen_unsized_prog(rng):
    """directed family: candidates for one instruction text whose STATIC size is unknown (the production concatenates an
    untyped argument as it is) next to statically sized ones; the smallest RESOLVED encoding must win whatever the
    declaration order or the split into blocks"""
    isa = Isa()
    m = rng.choice(['ld', 'mov', 'add'])
    rules = [dict(m=m, ops=[('expr', 'x', None, ('', ''))], prod='0x%02x @ x' % rng.below(256), cascade=True),
             dict(m=m, ops=[('expr', 'x', rng.choice(['u8', 'u16', 'i8']), ('', ''))], prod='0x%02x @ x' % rng.below(256), cascade=True)]
    if rng.chance(0.4):
        rules.append(dict(m=m, ops=[('expr', 'x', None, ('', ''))], prod='0x%02x @ x`%d' % (rng.below(256), rng.choice([8, 16, 24])), cascade=True))
    if rng.chance(0.4):
        rules.append(dict(m='nop', ops=[], prod='0x00'))
    isa.rules = rng.shuffle(rules)
    if rng.chance(0.4) and len(isa.rules) > 1:
        cut = rng.range(1, len(isa.rules) - 1)
        isa.cuts = [0, cut, len(isa.rules)]
    p = Prog(isa)
    ri = next(i for i, r in enumerate(isa.rules) if r['m'] == m)
    for _ in range(rng.range(1, 4)):
        v = rng.below(256)
        w = rng.choice([2, 4, 6])
        p.items.append(('instr', ri, [rng.choice(['0x%0*x' % (w, v), '0x%0*x' % (w, v), '0b%s' % format(v, '08b'), '0x%02x @ 0x%02x' % (rng.below(16), v)])]))
        if rng.chance(0.3):
            p.items.append(('data', 8, [str(rng.below(256))]))
    if rng.chance(0.5):
        p.names.append('l0'); p.items.append(('label', 'l0'))
    return p


def gen_widthflip_prog(rng):
    """directed family: a constant used before its definition whose NUMBER stays the same while its WIDTH depends on a
    label behind the reader, read by something sensitive to the width (an untyped concatenation, an unsized `#d`): the
    convergence test must see a change of width alone, at every budget"""
    isa = Isa()
    isa.rules.append(dict(m='ld', ops=[('expr', 'x', None, ('', ''))], prod='0x%02x @ x' % rng.below(256), cascade=True))
    if rng.chance(0.5):
        isa.rules.append(dict(m='nop', ops=[], prod='0x00'))
    p = Prog(isa)
    v = rng.below(200)
    w1, w2 = rng.choice([(2, 4), (4, 2), (2, 6), (4, 8)])
    t = rng.range(0, 4)
    chain = rng.range(0, 2)
    names = ['xw'] + ['y%d' % i for i in range(chain)]
    p.names += names + ['lw']
    items = []
    pre = rng.range(0, 2)
    for _ in range(pre):
        items.append(('data', 8, [str(rng.below(256))]))
    reader = rng.below(3)
    if reader == 0:
        items.append(('instr', 0, ['xw']))
    elif reader == 1:
        items.append(('data', None, ['xw']))
    else:
        items.append(('data', None, ['0x%02x @ xw' % rng.below(256)]))
    cond = 'lw %s %d' % (rng.choice(['>', '>=']), t + pre)
    expr = '(%s ? 0x%0*x : 0x%0*x)' % (cond, w1, v, w2, v)
    defs = []
    prev = 'xw'
    for n in names[1:]:
        defs.append(('const', prev, n)); prev = n
    defs.append(('const', prev, expr))
    if rng.chance(0.5):
        items += defs + [('label', 'lw')]
    else:
        items += [('label', 'lw')] + defs
    p.items = items
    p.names = [it[1] for it in items if it[0] in ('label', 'const')]      # declaration order
    return p
