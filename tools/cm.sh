#!/bin/sh
# developer helper: regenerate project files and build the given coq targets
cd /verif/coq && python3 -c "
import sys; sys.path.insert(0,'/verif/tools'); import vlib
vlib.translate(); vlib.coq_prepare()" && timeout ${CM_TIMEOUT:-600} make -j8 "$@" 2>&1 | grep -v "^COQDEP\|non-full-mutual\|Well-foundedness\|e.g., parse_expr\|conversely\|Not a fully mutually" | tail -${CM_TAIL:-30}
