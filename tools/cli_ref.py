"""C18: the property text and the usage text as an executable reference in Python, independent of src/driver.rs.
It is the oracle of the spec-on-implementation streams (always), and the ONLY oracle when tools/translate_cli.py can no
longer read the driver side (then the Coq model cannot be instantiated).  When the model is available the check also
compares this reference with it (a disagreement there is an infrastructure fault, reported as such).

Sources: usage table (names, parameters, defaults, `Same as`, "Supports base 2 and 16") from translate_cli.usage_tables;
the reading of the value sets / extensions / formatter names fixed in coq/Spec/Cli.v (documented_set, documented_extension,
documented_formats, undocumented_aliases); the property text for groups, defaults and derived names."""
import re

U64 = (1 << 64) - 1

DOC_CTOR = {"binary": "Binary", "annotated": "Annotated", "annotatedbin": "Annotated", "binstr": "BinStr", "hexstr": "HexStr",
            "bindump": "BinDump", "hexdump": "HexDump", "mif": "Mif", "intelhex": "IntelHex", "deccomma": "DecComma",
            "hexcomma": "HexComma", "decspace": "DecSpace", "hexspace": "HexSpace", "decc": "DecC", "hexc": "HexC",
            "logisim8": "LogiSim8", "logisim16": "LogiSim16", "addrspan": "AddressSpan", "tcgame": "TCGame", "tcgamebin": "TCGame",
            "symbols": "Symbols", "mesen-mlb": "SymbolsMesenMlb"}
ALIASES = {"annotatedhex": "annotated", "c": "hexc"}          # accepted although not listed (Spec.undocumented_aliases)
DOC_EXT = {"Binary": "bin", "SymbolsMesenMlb": "mlb"}           # everything else: txt


def documented_set(name, param):
    if param == "group":
        return range(1, 65536)
    if param == "addr_unit":
        return (8, 16, 32)
    if param == "base":
        return (2, 16) if name == "tcgame" else (2, 4, 8, 16, 32, 64, 128)
    return None


def parse_usize(s):
    """Rust str::parse::<usize>: one optional '+', ASCII digits, <= 2^64-1"""
    if not re.fullmatch(r"\+?[0-9]+", s):
        return None
    v = int(s)
    return v if v <= U64 else None


def name_table(usage):
    """name -> (ctor, [(param, default)] , fixed fields or None)"""
    tab = {}
    for e in usage["formats"]:
        ctor = DOC_CTOR.get(e["name"])
        if ctor is None:
            continue
        if e["same_as"]:
            tab[e["name"]] = (ctor, [], tuple(v for _, v in e["same_as"][1]))
        else:
            tab[e["name"]] = (ctor, list(e["params"]), None)
    for a, target in ALIASES.items():
        if target in tab:
            ctor, params, fixed = tab[target]
            tab[a] = (ctor, [], fixed if fixed is not None else tuple(d for _, d in params))
    return tab


def spec_format(usage, s, _cache={}):
    """the format a string must select, or None when it must be rejected"""
    key = id(usage)
    if key not in _cache:
        _cache[key] = name_table(usage)
    tab = _cache[key]
    parts = s.split(",")
    ent = tab.get(parts[0])
    if ent is None:
        return None
    ctor, params, fixed = ent
    given = {}
    for p in parts[1:]:
        pieces = p.split(":")
        if len(pieces) > 2 or pieces[0] not in [q for q, _ in params]:
            return None
        given[pieces[0]] = pieces[1] if len(pieces) == 2 else ""
    if fixed is not None:
        return (ctor, fixed)
    fields = []
    for q, dflt in params:
        if q not in given:
            fields.append(dflt)
            continue
        v = parse_usize(given[q])
        dset = documented_set(parts[0], q)
        if v is None or dset is None or v not in dset:
            return None
        fields.append(v)
    return (ctor, tuple(fields))


def usage_arms(usage):
    """the generator's view of the names when the driver's own table cannot be read: (name, ctor, fields)"""
    arms = []
    for name, (ctor, params, fixed) in name_table(usage).items():
        if fixed is not None:
            arms.append((name, ctor, [("f%d" % i, ("const", v)) for i, v in enumerate(fixed)]))
        else:
            arms.append((name, ctor, [(p, ("arg", p, d, None)) for p, d in params]))
    return arms


# ------------------------------------------------------------------------------------------------ derived names
def file_name_split(path):
    """std::path (Unix): (text before the last Normal component, that component) or None"""
    if path.startswith("/"):
        pre, body = "/", path[1:]
    elif path == ".":
        pre, body = ".", ""
    elif path.startswith("./"):
        pre, body = ".", path[1:]
    else:
        pre, body = "", path
    if body == "":
        return None
    pieces = body.split("/")
    i = len(pieces) - 1
    while i >= 0 and pieces[i] in ("", "."):
        i -= 1
    if i < 0 or pieces[i] == "..":
        return None
    front = pieces[:i]
    return pre + ("/".join(front) + "/" if front else ""), pieces[i]


def derive(input_name, ctor):
    """the property text: the first input with only its file-name extension replaced by the format's, in the same
    directory; refused (None) when that is the input name itself.  Returns (name or None, has_file_name)"""
    ext = DOC_EXT.get(ctor, "txt")
    fs = file_name_split(input_name)
    if fs is None:
        out = input_name
    else:
        front, comp = fs
        idx = -1 if comp == ".." else comp.rfind(".")
        stem = comp if idx <= 0 else comp[:idx]
        out = front + stem + "." + ext
    out = out.replace("\\", "/")
    return (None if out == input_name else out), fs is not None


# ------------------------------------------------------------------------------------------------ defines
def literal(body):
    if body == "":
        return None
    if body[0] == "0" and len(body) > 1 and body[1] in "box":
        radix, rest = {"b": 2, "o": 8, "x": 16}[body[1]], body[2:]
    elif body[0] == "%":
        radix, rest = 2, body[1:]
    elif body[0] == "$":
        radix, rest = 16, body[1:]
    else:
        radix, rest = 10, body
    value = count = 0
    for ch in rest:
        if ch == "_":
            continue
        if "0" <= ch <= "9":
            d = ord(ch) - 48
        elif "a" <= ch <= "z":
            d = ord(ch) - 97 + 10
        elif "A" <= ch <= "Z":
            d = ord(ch) - 65 + 10
        else:
            return None
        if d >= radix:
            return None
        value = value * radix + d
        count += 1
    if count == 0:
        return None
    bits = {2: 1, 8: 3, 16: 4}.get(radix)
    return value, (bits * count if bits else None)


def define(raw):
    """(name, value) with value 'B0' | 'B1' | 'I:<[-]hex>:<size hex|->', or None when it must be rejected"""
    parts = raw.split("=")
    if len(parts) == 1:
        return parts[0], "B1"
    if len(parts) != 2:
        return None
    name, v = parts
    if v == "true":
        return name, "B1"
    if v == "false":
        return name, "B0"
    neg = v.startswith("-")
    lit = literal(v[1:] if neg else v)
    if lit is None:
        return None
    value, size = lit
    if neg:
        value, size = -value, None
    return name, "I:%s%x:%s" % ("-" if value < 0 else "", abs(value), "-" if size is None else "%x" % size)


# ------------------------------------------------------------------------------------------------ whole command lines
def command(usage, groups):
    """structured groups (what getopts delivers) -> the same record tools/props/c18.py builds from the Coq model"""
    inputs, cgroups, defs = [], [], []
    quiet, colors, version, help_ = False, usage["defaults"]["color"] == "on", False, False
    iters = int(usage["defaults"]["iters"])
    ns = nm = di = False
    for g in groups:
        f = None
        if g.get("f") is not None:
            f = spec_format(usage, g["f"])
            if f is None:
                return {"kind": "ERR", "cls": "ERR format %r" % g["f"]}
        for d in g.get("d", []):
            dv = define(d)
            if dv is None:
                return {"kind": "ERR", "cls": "ERR define %r" % d}
            defs.append(dv)
        if g.get("c") is not None:
            if g["c"] == ("v", "on"):
                colors = True
            elif g["c"] == ("v", "off"):
                colors = False
            else:
                return {"kind": "ERR", "cls": "ERR color"}
        if g.get("t") is not None:
            n = parse_usize(g["t"])
            if n is None or n == 0:
                return {"kind": "ERR", "cls": "ERR iters %r" % g["t"]}
            iters = n
        inputs += g.get("i", [])
        cgroups.append((f, bool(g.get("p")), g.get("o")))
        quiet |= bool(g.get("q")); version |= bool(g.get("v")); help_ |= bool(g.get("h"))
        ns |= bool(g.get("ns")); nm |= bool(g.get("nm")); di |= bool(g.get("di"))
    actions = []
    for f, pr, o in cgroups:
        if f is None:
            f = ("Annotated", (16, 2)) if pr else ("Binary", ())
        if pr:
            actions.append(("P", None, f))
        elif o is not None:
            actions.append(("W", o, f))
        elif inputs:
            name, _ = derive(inputs[0], f[0])
            if name is None:
                return {"kind": "ERR", "cls": "ERR derive %r" % inputs[0]}
            actions.append(("W", name, f))
        else:
            actions.append(("S", None, None))
    if help_:
        return {"kind": "HELP", "cls": "HELP"}
    if version:
        return {"kind": "VERSION", "cls": "VERSION"}
    if not inputs:
        return {"kind": "NOINPUT", "cls": "NOINPUT"}
    return {"kind": "RUN", "quiet": quiet, "colors": colors, "iters": iters, "defines": defs, "actions": actions,
            "flags": ("0" if ns else "1") + ("0" if nm else "1") + ("1" if di else "0"), "inputs": inputs}
